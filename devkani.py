#!/usr/bin/env python3
"""Developer helper: run one harness under Kani in /var/tmp/gv-dev and print a summary.
usage: devkani.py <fl> <harness> [--unwind N] [--t SEC] [--mem GB] [--full]"""
import os, re, subprocess, sys, time
sys.path.insert(0, os.path.dirname(os.path.abspath(__file__)))
import run
fl, name = sys.argv[1], sys.argv[2]
opt = sys.argv[3:]
def arg(k, d):
    return opt[opt.index(k) + 1] if k in opt else d
allh = run.parse_harnesses()
h = dict(next(x for x in allh if x["name"] == name))
h["fl"] = fl
h["t"] = int(arg("--t", h["t"])); h["mem"] = int(arg("--mem", h["mem"]))
extra = []
if "--unwind" in opt:
    extra += ["--unwind", arg("--unwind", "")]
if "--kani" in opt:
    extra += arg("--kani", "").split(",")
if extra:
    h["kani"] = ",".join(([h["kani"]] if h.get("kani") else []) + extra)
base = "/var/tmp/gv-dev-" + arg("--slot", "0")
d, _ = run.prepare_flavour(base, run.flkey(h), allh)
os.makedirs(base + "/logs", exist_ok=True)
r = run.run_kani(h, d, "dev", base + "/logs")
out = open(base + "/logs/" + name + ".log").read()
for k in ("verdict", "reason", "wall_s", "checks", "vccs", "sat_variables", "sat_clauses", "solver_s", "verification_s"):
    print(k, "=", r.get(k))
print("failed:", sorted({c["desc"] for c in r["failed_checks"]}))
print("covers:", r["covers"])
print("playback tests:", len(r["playback"]))
for l in re.findall(r"Runtime [A-Za-z ]+: [0-9.]+s", out)[:6]:
    print(l)
if "--full" in opt:
    print(out[-3000:])
