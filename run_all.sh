#!/bin/bash
# usage: run_all.sh <tier> <prop>...   — runs the registered check of each property in turn, logs to /tmp/runall-<prop>.out
tier=$1; shift
for p in "$@"; do
  start=$(date +%s)
  python3 /verif/run.py $p $tier > /tmp/runall-$p.out 2>&1
  rc=$?
  echo "$p rc=$rc $(( $(date +%s) - start )) s" >> /tmp/runall.summary
done
