//! Differential self-test of the container models against the real `std`
//! containers: deterministic pseudo-random operation sequences, every
//! observable compared after every step. Run by /verif/setup.py.

use std::collections as real;
use vstd::collections as model;

struct Lcg(u64);

impl Lcg {
    fn next(&mut self) -> u64 {
        self.0 = self.0.wrapping_mul(6364136223846793005).wrapping_add(1442695040888963407);
        self.0 >> 33
    }

    fn below(&mut self, n: u64) -> usize {
        (self.next() % n) as usize
    }
}

#[test]
fn btree_set_usize() {
    let mut rng = Lcg(1);

    for round in 0..200 {
        let mut m = model::BTreeSet::<usize>::new();
        let mut r = real::BTreeSet::<usize>::new();

        for _ in 0..40 {
            let k = rng.below(if round % 2 == 0 { 8 } else { 64 });

            match rng.below(6) {
                0 | 1 => assert_eq!(m.insert(k), r.insert(k)),
                2 => assert_eq!(m.remove(&k), r.remove(&k)),
                3 => assert_eq!(m.contains(&k), r.contains(&k)),
                4 => assert_eq!(m.pop_first(), r.pop_first()),
                _ => assert_eq!(m.first(), r.first()),
            }

            assert_eq!(m.len(), r.len());
            assert_eq!(m.is_empty(), r.is_empty());
            assert!(m.iter().eq(r.iter()));
            assert!(m.iter().rev().eq(r.iter().rev()));
            assert_eq!(m.contains(&1000), r.contains(&1000));
            assert_eq!(m.iter().min(), r.iter().min());
            assert_eq!(m.last(), r.last());
        }

        // set algebra, ordering, equality, from/collect
        let mut m2 = model::BTreeSet::<usize>::new();
        let mut r2 = real::BTreeSet::<usize>::new();

        for _ in 0..rng.below(10) {
            let k = rng.below(8);

            let _ = m2.insert(k);
            let _ = r2.insert(k);
        }

        assert!(m.difference(&m2).eq(r.difference(&r2)));
        assert!(m.union(&m2).eq(r.union(&r2)));
        assert!(m.intersection(&m2).eq(r.intersection(&r2)));
        assert_eq!(m.is_subset(&m2), r.is_subset(&r2));
        assert_eq!(m == m2, r == r2);
        assert_eq!(m.cmp(&m2), r.cmp(&r2), "{m:?} vs {m2:?}");
        assert_eq!(m2.cmp(&m), r2.cmp(&r));
        assert_eq!(format!("{m:?}"), format!("{r:?}"));

        let mc: model::BTreeSet<usize> = r.iter().copied().collect();

        assert!(mc == m);
        assert!(m.clone().into_iter().eq(r.clone().into_iter()));
    }
}

#[test]
fn btree_set_pairs() {
    let mut rng = Lcg(2);

    for _ in 0..200 {
        let mut m = model::BTreeSet::<(usize, usize)>::new();
        let mut r = real::BTreeSet::<(usize, usize)>::new();
        let mut m2 = model::BTreeSet::<(usize, usize)>::new();
        let mut r2 = real::BTreeSet::<(usize, usize)>::new();

        for _ in 0..30 {
            let k = (rng.below(8), rng.below(8));

            match rng.below(4) {
                0 | 1 => assert_eq!(m.insert(k), r.insert(k)),
                2 => assert_eq!(m.remove(&k), r.remove(&k)),
                _ => {
                    let _ = m2.insert(k);
                    let _ = r2.insert(k);
                }
            }

            assert!(m.iter().eq(r.iter()));
            assert_eq!(m.len(), r.len());
            assert_eq!(m.contains(&(9, 1)), r.contains(&(9, 1)));
            assert_eq!(m.cmp(&m2), r.cmp(&r2));
            assert!(m.difference(&m2).eq(r.difference(&r2)));
        }
    }
}

#[test]
fn btree_map() {
    let mut rng = Lcg(3);

    for _ in 0..300 {
        let mut m = model::BTreeMap::<usize, i64>::new();
        let mut r = real::BTreeMap::<usize, i64>::new();
        let mut m2 = model::BTreeMap::<usize, i64>::new();
        let mut r2 = real::BTreeMap::<usize, i64>::new();
        let slots = model::btree_map::SLOTS as u64;

        for _ in 0..30 {
            let k = rng.below(slots);
            let v = rng.below(3) as i64 - 1;

            match rng.below(8) {
                0 | 1 => assert_eq!(m.insert(k, v), r.insert(k, v)),
                2 => assert_eq!(m.remove(&k), r.remove(&k)),
                3 => assert_eq!(m.get(&k), r.get(&k)),
                4 => {
                    *m.entry(k).or_default() += 1;
                    *r.entry(k).or_default() += 1;
                }
                5 => assert_eq!(m.contains_key(&k), r.contains_key(&k)),
                6 => {
                    let _ = m2.insert(k, v);
                    let _ = r2.insert(k, v);
                }
                _ => assert_eq!(m.get_mut(&k).map(|x| *x), r.get_mut(&k).map(|x| *x)),
            }

            assert_eq!(m.len(), r.len());
            assert_eq!(m.is_empty(), r.is_empty());
            assert!(m.iter().eq(r.iter()));
            assert!(m.keys().eq(r.keys()));
            assert!(m.values().eq(r.values()));
            assert_eq!(m.get(&1000), r.get(&1000));
            assert_eq!(m == m2, r == r2);
            assert_eq!(m.cmp(&m2), r.cmp(&r2), "{m:?} vs {m2:?}");
            assert_eq!(m.partial_cmp(&m2), r.partial_cmp(&r2));
            assert_eq!(m.first_key_value(), r.first_key_value());
        }

        assert_eq!(format!("{m:?}"), format!("{r:?}"));
        assert!(m.clone().into_iter().eq(r.clone().into_iter()));

        let mc: model::BTreeMap<usize, i64> = r.iter().map(|(k, v)| (*k, *v)).collect();

        assert!(mc == m);
    }
}

#[test]
fn vec_deque_and_heap() {
    let mut rng = Lcg(4);

    vstd::verif::set_vcap(8);

    for _ in 0..300 {
        let mut m = model::VecDeque::<(usize, usize)>::new();
        let mut r = real::VecDeque::<(usize, usize)>::new();
        let mut pushes = 0;

        for _ in 0..20 {
            if rng.below(2) == 0 && pushes < 8 {
                let x = (rng.below(5), rng.below(5));

                m.push_back(x);
                r.push_back(x);
                pushes += 1;
            } else {
                assert_eq!(m.pop_front(), r.pop_front());
            }

            assert_eq!(m.len(), r.len());
            assert_eq!(m.front(), r.front());
            assert!(m.iter().eq(r.iter()));
        }

        let mut h = model::BinaryHeap::<(std::cmp::Reverse<usize>, usize)>::new();
        let mut g = real::BinaryHeap::<(std::cmp::Reverse<usize>, usize)>::new();

        for _ in 0..30 {
            if rng.below(2) == 0 && h.len() < 8 {
                let x = (std::cmp::Reverse(rng.below(4)), rng.below(4));

                h.push(x);
                g.push(x);
            } else {
                assert_eq!(h.pop(), g.pop());
            }

            assert_eq!(h.len(), g.len());
            assert_eq!(h.peek(), g.peek());
        }
    }
}

#[cfg(feature = "vecmodel")]
#[test]
fn vec_model() {
    use vstd::{
        shim_prelude::vec,
        vec::Vec as MVec,
    };

    let mut rng = Lcg(5);

    vstd::verif::set_vcap(16);

    for _ in 0..300 {
        let n = rng.below(5);
        let mut m: MVec<usize> = vec![7; n];
        let mut r: Vec<usize> = std::vec![7; n];

        for _ in 0..30 {
            match rng.below(8) {
                0 | 1 | 2 if r.len() < 16 => {
                    let x = rng.below(9);

                    m.push(x);
                    r.push(x);
                }
                3 => assert_eq!(m.pop(), r.pop()),
                4 if !r.is_empty() => {
                    let i = rng.below(r.len() as u64);

                    assert_eq!(m.remove(i), r.remove(i));
                }
                5 => {
                    m.reverse();
                    r.reverse();
                }
                6 => {
                    m.sort_unstable_by_key(|&x| x);
                    r.sort_unstable_by_key(|&x| x);
                }
                _ => {
                    m.clear();
                    r.clear();
                }
            }

            assert_eq!(m.len(), r.len());
            assert_eq!(&m[..], &r[..]);
            assert!(m.iter().eq(r.iter()));
            assert_eq!(m.first(), r.first());
        }

        let mc = m.clone();

        assert!(mc == m);
        assert!(mc.into_iter().eq(r.clone().into_iter()));

        let col: MVec<usize> = r.iter().copied().collect();

        assert!(col == m);

        let nested: MVec<MVec<usize>> = vec![m.clone(); 3];

        assert_eq!(nested.len(), 3);
        assert!(nested[2] == m);
    }
}
