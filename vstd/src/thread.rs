//! Sequential thread model: a spawned closure runs to completion at the spawn
//! point. `available_parallelism` returns what the harness set — normally a
//! symbolic value — so every thread-count-dependent computation (chunk sizes,
//! partitions) is decided for all counts in the bound. Interleavings are NOT
//! modelled.

pub use ::std::thread::{
    current,
    panicking,
    sleep,
    yield_now,
    Result,
    Thread,
    ThreadId,
};

use ::std::{
    io,
    marker::PhantomData,
    num::NonZero,
};

pub struct JoinHandle<T> {
    value: T,
}

impl<T> JoinHandle<T> {
    pub fn join(self) -> Result<T> {
        Ok(self.value)
    }

    #[must_use]
    pub const fn is_finished(&self) -> bool {
        true
    }
}

impl<T> ::std::fmt::Debug for JoinHandle<T> {
    fn fmt(&self, f: &mut ::std::fmt::Formatter<'_>) -> ::std::fmt::Result {
        f.write_str("JoinHandle")
    }
}

pub fn spawn<F, T>(f: F) -> JoinHandle<T>
where
    F: FnOnce() -> T + 'static,
    T: 'static,
{
    crate::verif::note_spawn();

    JoinHandle { value: f() }
}

pub struct Scope<'scope, 'env: 'scope> {
    _scope: PhantomData<&'scope mut &'scope ()>,
    _env: PhantomData<&'env mut &'env ()>,
}

pub struct ScopedJoinHandle<'scope, T> {
    value: T,
    _p: PhantomData<&'scope ()>,
}

impl<T> ScopedJoinHandle<'_, T> {
    pub fn join(self) -> Result<T> {
        Ok(self.value)
    }

    #[must_use]
    pub const fn is_finished(&self) -> bool {
        true
    }
}

impl<'scope> Scope<'scope, '_> {
    pub fn spawn<F, T>(&'scope self, f: F) -> ScopedJoinHandle<'scope, T>
    where
        F: FnOnce() -> T + 'scope,
        T: 'scope,
    {
        crate::verif::note_spawn();

        ScopedJoinHandle {
            value: f(),
            _p: PhantomData,
        }
    }
}

pub fn scope<'env, F, T>(f: F) -> T
where
    F: for<'scope> FnOnce(&'scope Scope<'scope, 'env>) -> T,
{
    let scope = Scope {
        _scope: PhantomData,
        _env: PhantomData,
    };

    f(&scope)
}

/// # Errors
///
/// Returns an error when the harness set the parallelism to 0.
pub fn available_parallelism() -> io::Result<NonZero<usize>> {
    match NonZero::new(crate::verif::parallelism()) {
        Some(p) => Ok(p),
        None => Err(io::Error::from(io::ErrorKind::Unsupported)),
    }
}
