//! `std::collections` with the four containers graaf uses replaced by
//! bounded models.

pub use ::std::collections::{
    hash_map,
    hash_set,
    linked_list,
    Bound,
    HashMap,
    HashSet,
    LinkedList,
    TryReserveError,
};

pub mod binary_heap;
pub mod btree_map;
pub mod btree_set;
pub mod vec_deque;

pub use {
    binary_heap::BinaryHeap,
    btree_map::BTreeMap,
    btree_set::BTreeSet,
    vec_deque::VecDeque,
};

/// Keys of the set / map models: a value with a small dense index and a
/// static table to hand out `&'static` references from.
pub trait Key:
    Copy + Ord + ::std::fmt::Debug + ::std::hash::Hash + 'static
{
    /// Index in `0..64`, or `None` if the value is outside the model's range.
    fn to_idx(&self) -> Option<usize>;
    /// The value with index `i < 64`.
    fn table() -> &'static [Self; 64];
}

const fn usize_table() -> [usize; 64] {
    let mut t = [0_usize; 64];
    let mut i = 0;

    while i < 64 {
        t[i] = i;
        i += 1;
    }

    t
}

const fn pair_table() -> [(usize, usize); 64] {
    let mut t = [(0_usize, 0_usize); 64];
    let mut i = 0;

    while i < 64 {
        t[i] = (i >> 3, i & 7);
        i += 1;
    }

    t
}

pub(crate) static USIZE_TABLE: [usize; 64] = usize_table();
pub(crate) static PAIR_TABLE: [(usize, usize); 64] = pair_table();

impl Key for usize {
    #[inline]
    fn to_idx(&self) -> Option<usize> {
        if *self < 64 {
            Some(*self)
        } else {
            None
        }
    }

    #[inline]
    fn table() -> &'static [Self; 64] {
        &USIZE_TABLE
    }
}

/// Pairs `(u, v)` with `u, v < 8`; the index `8u + v` is monotone in the
/// lexicographic order of the pairs.
impl Key for (usize, usize) {
    #[inline]
    fn to_idx(&self) -> Option<usize> {
        if self.0 < 8 && self.1 < 8 {
            Some((self.0 << 3) | self.1)
        } else {
            None
        }
    }

    #[inline]
    fn table() -> &'static [Self; 64] {
        &PAIR_TABLE
    }
}
