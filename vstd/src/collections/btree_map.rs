//! `BTreeMap<usize, V>` as `SLOTS` direct-indexed `Option<V>` slots.
//! Bound: keys `< SLOTS`.

use {
    super::USIZE_TABLE,
    ::std::{
        cmp::Ordering,
        fmt,
        hash::{
            Hash,
            Hasher,
        },
        marker::PhantomData,
        ops::Index,
    },
};

/// Number of slots = exclusive upper bound on keys.
#[cfg(not(feature = "map4"))]
pub const SLOTS: usize = 8;
#[cfg(feature = "map4")]
pub const SLOTS: usize = 4;

pub struct BTreeMap<K, V> {
    pub(crate) slots: [Option<V>; SLOTS],
    _k: PhantomData<K>,
}

impl<K, V> BTreeMap<K, V> {
    #[must_use]
    pub const fn new() -> Self {
        Self {
            slots: [const { None }; SLOTS],
            _k: PhantomData,
        }
    }

    #[must_use]
    pub fn len(&self) -> usize {
        let mut n = 0;
        let mut i = 0;

        while i < SLOTS {
            if self.slots[i].is_some() {
                n += 1;
            }

            i += 1;
        }

        n
    }

    #[must_use]
    pub fn is_empty(&self) -> bool {
        let mut i = 0;

        while i < SLOTS {
            if self.slots[i].is_some() {
                return false;
            }

            i += 1;
        }

        true
    }

    pub fn clear(&mut self) {
        let mut i = 0;

        while i < SLOTS {
            self.slots[i] = None;
            i += 1;
        }
    }
}

impl<V> BTreeMap<usize, V> {
    pub fn insert(&mut self, key: usize, value: V) -> Option<V> {
        if key >= SLOTS {
            crate::verif_capacity!("VERIF-CAPACITY: BTreeMap key outside the model range");
        }

        self.slots[key].replace(value)
    }

    pub fn remove(&mut self, key: &usize) -> Option<V> {
        if *key >= SLOTS {
            return None;
        }

        self.slots[*key].take()
    }

    #[must_use]
    pub fn get(&self, key: &usize) -> Option<&V> {
        if *key >= SLOTS {
            return None;
        }

        self.slots[*key].as_ref()
    }

    #[must_use]
    pub fn get_mut(&mut self, key: &usize) -> Option<&mut V> {
        if *key >= SLOTS {
            return None;
        }

        self.slots[*key].as_mut()
    }

    #[must_use]
    pub fn get_key_value(&self, key: &usize) -> Option<(&usize, &V)> {
        if *key >= SLOTS {
            return None;
        }

        self.slots[*key].as_ref().map(|v| (&USIZE_TABLE[*key], v))
    }

    #[must_use]
    pub fn contains_key(&self, key: &usize) -> bool {
        *key < SLOTS && self.slots[*key].is_some()
    }

    pub fn entry(&mut self, key: usize) -> Entry<'_, V> {
        if key >= SLOTS {
            crate::verif_capacity!("VERIF-CAPACITY: BTreeMap key outside the model range");
        }

        Entry {
            slot: &mut self.slots[key],
        }
    }

    #[must_use]
    pub fn iter(&self) -> Iter<'_, V> {
        Iter {
            slots: &self.slots,
            lo: 0,
            hi: SLOTS,
        }
    }

    pub fn iter_mut(&mut self) -> IterMut<'_, V> {
        IterMut {
            inner: self.slots.iter_mut(),
            i: 0,
        }
    }

    #[must_use]
    pub fn keys(&self) -> Keys<'_, V> {
        Keys { inner: self.iter() }
    }

    #[must_use]
    pub fn values(&self) -> Values<'_, V> {
        Values { inner: self.iter() }
    }

    pub fn values_mut(&mut self) -> impl Iterator<Item = &mut V> {
        self.iter_mut().map(|(_, v)| v)
    }

    #[must_use]
    pub fn first_key_value(&self) -> Option<(&usize, &V)> {
        self.iter().next()
    }

    #[must_use]
    pub fn last_key_value(&self) -> Option<(&usize, &V)> {
        self.iter().next_back()
    }

    pub fn pop_first(&mut self) -> Option<(usize, V)> {
        let mut i = 0;

        while i < SLOTS {
            if let Some(v) = self.slots[i].take() {
                return Some((i, v));
            }

            i += 1;
        }

        None
    }

    pub fn retain<F>(&mut self, mut f: F)
    where
        F: FnMut(&usize, &mut V) -> bool,
    {
        let mut i = 0;

        while i < SLOTS {
            let keep = match self.slots[i].as_mut() {
                Some(v) => f(&USIZE_TABLE[i], v),
                None => true,
            };

            if !keep {
                self.slots[i] = None;
            }

            i += 1;
        }
    }
}

pub struct Entry<'a, V> {
    slot: &'a mut Option<V>,
}

impl<'a, V> Entry<'a, V> {
    pub fn or_default(self) -> &'a mut V
    where
        V: Default,
    {
        self.slot.get_or_insert_with(V::default)
    }

    pub fn or_insert(self, default: V) -> &'a mut V {
        self.slot.get_or_insert(default)
    }

    pub fn or_insert_with<F: FnOnce() -> V>(self, f: F) -> &'a mut V {
        self.slot.get_or_insert_with(f)
    }

    #[must_use]
    pub fn and_modify<F: FnOnce(&mut V)>(self, f: F) -> Self {
        if let Some(v) = self.slot.as_mut() {
            f(v);
        }

        self
    }
}

pub struct Iter<'a, V> {
    slots: &'a [Option<V>; SLOTS],
    lo: usize,
    hi: usize,
}

impl<V> Clone for Iter<'_, V> {
    fn clone(&self) -> Self {
        Self {
            slots: self.slots,
            lo: self.lo,
            hi: self.hi,
        }
    }
}

impl<V> fmt::Debug for Iter<'_, V> {
    fn fmt(&self, f: &mut fmt::Formatter<'_>) -> fmt::Result {
        f.write_str("Iter")
    }
}

impl<'a, V> Iterator for Iter<'a, V> {
    type Item = (&'a usize, &'a V);

    #[inline]
    fn next(&mut self) -> Option<Self::Item> {
        while self.lo < self.hi {
            let i = self.lo;

            self.lo += 1;

            if let Some(v) = self.slots[i].as_ref() {
                return Some((&USIZE_TABLE[i], v));
            }
        }

        None
    }
}

impl<V> DoubleEndedIterator for Iter<'_, V> {
    fn next_back(&mut self) -> Option<Self::Item> {
        while self.lo < self.hi {
            self.hi -= 1;

            if let Some(v) = self.slots[self.hi].as_ref() {
                return Some((&USIZE_TABLE[self.hi], v));
            }
        }

        None
    }
}

pub struct IterMut<'a, V> {
    inner: ::std::slice::IterMut<'a, Option<V>>,
    i: usize,
}

impl<'a, V> Iterator for IterMut<'a, V> {
    type Item = (&'a usize, &'a mut V);

    fn next(&mut self) -> Option<Self::Item> {
        loop {
            let slot = self.inner.next()?;
            let i = self.i;

            self.i += 1;

            if let Some(v) = slot.as_mut() {
                return Some((&USIZE_TABLE[i], v));
            }
        }
    }
}

pub struct Keys<'a, V> {
    inner: Iter<'a, V>,
}

impl<V> Clone for Keys<'_, V> {
    fn clone(&self) -> Self {
        Self {
            inner: self.inner.clone(),
        }
    }
}

impl<V> fmt::Debug for Keys<'_, V> {
    fn fmt(&self, f: &mut fmt::Formatter<'_>) -> fmt::Result {
        f.write_str("Keys")
    }
}

impl<'a, V> Iterator for Keys<'a, V> {
    type Item = &'a usize;

    #[inline]
    fn next(&mut self) -> Option<&'a usize> {
        self.inner.next().map(|(k, _)| k)
    }
}

impl<V> DoubleEndedIterator for Keys<'_, V> {
    fn next_back(&mut self) -> Option<Self::Item> {
        self.inner.next_back().map(|(k, _)| k)
    }
}

pub struct Values<'a, V> {
    inner: Iter<'a, V>,
}

impl<V> Clone for Values<'_, V> {
    fn clone(&self) -> Self {
        Self {
            inner: self.inner.clone(),
        }
    }
}

impl<V> fmt::Debug for Values<'_, V> {
    fn fmt(&self, f: &mut fmt::Formatter<'_>) -> fmt::Result {
        f.write_str("Values")
    }
}

impl<'a, V> Iterator for Values<'a, V> {
    type Item = &'a V;

    #[inline]
    fn next(&mut self) -> Option<&'a V> {
        self.inner.next().map(|(_, v)| v)
    }
}

impl<V> DoubleEndedIterator for Values<'_, V> {
    fn next_back(&mut self) -> Option<Self::Item> {
        self.inner.next_back().map(|(_, v)| v)
    }
}

pub struct IntoIter<V> {
    slots: [Option<V>; SLOTS],
    i: usize,
}

impl<V> fmt::Debug for IntoIter<V> {
    fn fmt(&self, f: &mut fmt::Formatter<'_>) -> fmt::Result {
        f.write_str("IntoIter")
    }
}

impl<V> Iterator for IntoIter<V> {
    type Item = (usize, V);

    fn next(&mut self) -> Option<(usize, V)> {
        while self.i < SLOTS {
            let i = self.i;

            self.i += 1;

            if let Some(v) = self.slots[i].take() {
                return Some((i, v));
            }
        }

        None
    }
}

impl<V> IntoIterator for BTreeMap<usize, V> {
    type IntoIter = IntoIter<V>;
    type Item = (usize, V);

    fn into_iter(self) -> IntoIter<V> {
        IntoIter {
            slots: self.slots,
            i: 0,
        }
    }
}

impl<'a, V> IntoIterator for &'a BTreeMap<usize, V> {
    type IntoIter = Iter<'a, V>;
    type Item = (&'a usize, &'a V);

    fn into_iter(self) -> Iter<'a, V> {
        self.iter()
    }
}

impl<'a, V> IntoIterator for &'a mut BTreeMap<usize, V> {
    type IntoIter = IterMut<'a, V>;
    type Item = (&'a usize, &'a mut V);

    fn into_iter(self) -> IterMut<'a, V> {
        self.iter_mut()
    }
}

impl<V> FromIterator<(usize, V)> for BTreeMap<usize, V> {
    fn from_iter<I: IntoIterator<Item = (usize, V)>>(iter: I) -> Self {
        let mut map = Self::new();

        for (k, v) in iter {
            let _ = map.insert(k, v);
        }

        map
    }
}

impl<V> Extend<(usize, V)> for BTreeMap<usize, V> {
    fn extend<I: IntoIterator<Item = (usize, V)>>(&mut self, iter: I) {
        for (k, v) in iter {
            let _ = self.insert(k, v);
        }
    }
}

impl<V, const N: usize> From<[(usize, V); N]> for BTreeMap<usize, V> {
    fn from(arr: [(usize, V); N]) -> Self {
        let mut map = Self::new();

        for (k, v) in arr {
            let _ = map.insert(k, v);
        }

        map
    }
}

impl<V> Index<&usize> for BTreeMap<usize, V> {
    type Output = V;

    fn index(&self, key: &usize) -> &V {
        self.get(key).expect("no entry found for key")
    }
}

impl<K, V> Default for BTreeMap<K, V> {
    fn default() -> Self {
        Self::new()
    }
}

impl<K, V: Clone> Clone for BTreeMap<K, V> {
    fn clone(&self) -> Self {
        let mut out = Self::new();
        let mut i = 0;

        while i < SLOTS {
            out.slots[i] = self.slots[i].clone();
            i += 1;
        }

        out
    }
}

impl<K, V: PartialEq> PartialEq for BTreeMap<K, V> {
    fn eq(&self, other: &Self) -> bool {
        let mut i = 0;

        while i < SLOTS {
            if self.slots[i] != other.slots[i] {
                return false;
            }

            i += 1;
        }

        true
    }
}

impl<K, V: Eq> Eq for BTreeMap<K, V> {}

/// Lexicographic over the ascending `(key, value)` sequences, as `std`.
impl<K, V: Ord> Ord for BTreeMap<K, V> {
    fn cmp(&self, other: &Self) -> Ordering {
        let mut i = 0;

        while i < SLOTS {
            match (self.slots[i].as_ref(), other.slots[i].as_ref()) {
                (None, None) => {}
                (Some(a), Some(b)) => match a.cmp(b) {
                    Ordering::Equal => {}
                    o => return o,
                },
                // `self` has key i here; `other`'s next key (if any) is
                // larger, so `self` is smaller unless `other` has ended.
                (Some(_), None) => {
                    return if rest_empty(&other.slots, i + 1) {
                        Ordering::Greater
                    } else {
                        Ordering::Less
                    };
                }
                (None, Some(_)) => {
                    return if rest_empty(&self.slots, i + 1) {
                        Ordering::Less
                    } else {
                        Ordering::Greater
                    };
                }
            }

            i += 1;
        }

        Ordering::Equal
    }
}

fn rest_empty<V>(slots: &[Option<V>; SLOTS], from: usize) -> bool {
    let mut i = from;

    while i < SLOTS {
        if slots[i].is_some() {
            return false;
        }

        i += 1;
    }

    true
}

impl<K, V: PartialOrd> PartialOrd for BTreeMap<K, V> {
    fn partial_cmp(&self, other: &Self) -> Option<Ordering> {
        let mut i = 0;

        while i < SLOTS {
            match (self.slots[i].as_ref(), other.slots[i].as_ref()) {
                (None, None) => {}
                (Some(a), Some(b)) => match a.partial_cmp(b) {
                    Some(Ordering::Equal) => {}
                    o => return o,
                },
                (Some(_), None) => {
                    return Some(if rest_empty(&other.slots, i + 1) {
                        Ordering::Greater
                    } else {
                        Ordering::Less
                    });
                }
                (None, Some(_)) => {
                    return Some(if rest_empty(&self.slots, i + 1) {
                        Ordering::Less
                    } else {
                        Ordering::Greater
                    });
                }
            }

            i += 1;
        }

        Some(Ordering::Equal)
    }
}

impl<K, V: Hash> Hash for BTreeMap<K, V> {
    fn hash<H: Hasher>(&self, state: &mut H) {
        state.write_usize(self.len());

        let mut i = 0;

        while i < SLOTS {
            if let Some(v) = self.slots[i].as_ref() {
                i.hash(state);
                v.hash(state);
            }

            i += 1;
        }
    }
}

impl<K, V: fmt::Debug> fmt::Debug for BTreeMap<K, V> {
    fn fmt(&self, f: &mut fmt::Formatter<'_>) -> fmt::Result {
        let mut m = f.debug_map();
        let mut i = 0;

        while i < SLOTS {
            if let Some(v) = self.slots[i].as_ref() {
                let _ = m.entry(&i, v);
            }

            i += 1;
        }

        m.finish()
    }
}
