//! `BTreeSet<T>` as one 64-bit mask. Bound: keys with `Key::to_idx` in
//! `0..64` (`usize < 64`, pairs with both components `< 8`).

use {
    super::Key,
    ::std::{
        cmp::Ordering,
        fmt,
        hash::{
            Hash,
            Hasher,
        },
        marker::PhantomData,
    },
};

pub struct BTreeSet<T> {
    pub(crate) mask: u64,
    _p: PhantomData<T>,
}

#[inline]
const fn bit(i: usize) -> u64 {
    1_u64 << i
}

impl<T> BTreeSet<T> {
    #[must_use]
    pub const fn new() -> Self {
        Self {
            mask: 0,
            _p: PhantomData,
        }
    }

    #[must_use]
    pub(crate) const fn from_mask(mask: u64) -> Self {
        Self {
            mask,
            _p: PhantomData,
        }
    }

    /// Verification-only accessor: the set as a bit mask.
    #[must_use]
    pub const fn verif_mask(&self) -> u64 {
        self.mask
    }

    /// Verification-only constructor.
    #[must_use]
    pub const fn verif_from_mask(mask: u64) -> Self {
        Self::from_mask(mask)
    }

    #[must_use]
    pub const fn len(&self) -> usize {
        self.mask.count_ones() as usize
    }

    #[must_use]
    pub const fn is_empty(&self) -> bool {
        self.mask == 0
    }

    pub fn clear(&mut self) {
        self.mask = 0;
    }
}

impl<T: Key> BTreeSet<T> {
    pub fn insert(&mut self, value: T) -> bool {
        let Some(i) = value.to_idx() else {
            crate::verif_capacity!("VERIF-CAPACITY: BTreeSet key outside the model range")
        };

        let fresh = self.mask & bit(i) == 0;

        self.mask |= bit(i);

        fresh
    }

    pub fn remove(&mut self, value: &T) -> bool {
        let Some(i) = value.to_idx() else {
            return false;
        };

        let present = self.mask & bit(i) != 0;

        self.mask &= !bit(i);

        present
    }

    pub fn take(&mut self, value: &T) -> Option<T> {
        if self.remove(value) {
            Some(*value)
        } else {
            None
        }
    }

    #[must_use]
    pub fn contains(&self, value: &T) -> bool {
        match value.to_idx() {
            Some(i) => self.mask & bit(i) != 0,
            None => false,
        }
    }

    #[must_use]
    pub fn get(&self, value: &T) -> Option<&T> {
        match value.to_idx() {
            Some(i) if self.mask & bit(i) != 0 => Some(&T::table()[i]),
            _ => None,
        }
    }

    #[must_use]
    pub fn first(&self) -> Option<&T> {
        if self.mask == 0 {
            None
        } else {
            Some(&T::table()[self.mask.trailing_zeros() as usize])
        }
    }

    #[must_use]
    pub fn last(&self) -> Option<&T> {
        if self.mask == 0 {
            None
        } else {
            Some(&T::table()[63 - self.mask.leading_zeros() as usize])
        }
    }

    pub fn pop_first(&mut self) -> Option<T> {
        if self.mask == 0 {
            return None;
        }

        let i = self.mask.trailing_zeros() as usize;

        self.mask &= self.mask - 1;

        Some(T::table()[i])
    }

    pub fn pop_last(&mut self) -> Option<T> {
        if self.mask == 0 {
            return None;
        }

        let i = 63 - self.mask.leading_zeros() as usize;

        self.mask &= !bit(i);

        Some(T::table()[i])
    }

    #[must_use]
    pub fn iter(&self) -> Iter<'_, T> {
        Iter {
            mask: self.mask,
            _p: PhantomData,
        }
    }

    #[must_use]
    pub fn difference<'a>(&'a self, other: &'a Self) -> Difference<'a, T> {
        Iter {
            mask: self.mask & !other.mask,
            _p: PhantomData,
        }
    }

    #[must_use]
    pub fn intersection<'a>(&'a self, other: &'a Self) -> Intersection<'a, T> {
        Iter {
            mask: self.mask & other.mask,
            _p: PhantomData,
        }
    }

    #[must_use]
    pub fn union<'a>(&'a self, other: &'a Self) -> Union<'a, T> {
        Iter {
            mask: self.mask | other.mask,
            _p: PhantomData,
        }
    }

    #[must_use]
    pub fn symmetric_difference<'a>(
        &'a self,
        other: &'a Self,
    ) -> SymmetricDifference<'a, T> {
        Iter {
            mask: self.mask ^ other.mask,
            _p: PhantomData,
        }
    }

    #[must_use]
    pub const fn is_subset(&self, other: &Self) -> bool {
        self.mask & !other.mask == 0
    }

    #[must_use]
    pub const fn is_superset(&self, other: &Self) -> bool {
        other.mask & !self.mask == 0
    }

    #[must_use]
    pub const fn is_disjoint(&self, other: &Self) -> bool {
        self.mask & other.mask == 0
    }

    pub fn append(&mut self, other: &mut Self) {
        self.mask |= other.mask;
        other.mask = 0;
    }

    pub fn retain<F>(&mut self, mut f: F)
    where
        F: FnMut(&T) -> bool,
    {
        let mut rest = self.mask;

        while rest != 0 {
            let i = rest.trailing_zeros() as usize;

            rest &= rest - 1;

            if !f(&T::table()[i]) {
                self.mask &= !bit(i);
            }
        }
    }
}

/// Ascending iterator over the set bits; items are references into the key
/// type's static table.
pub struct Iter<'a, T> {
    mask: u64,
    _p: PhantomData<&'a T>,
}

pub type Difference<'a, T> = Iter<'a, T>;
pub type Intersection<'a, T> = Iter<'a, T>;
pub type Union<'a, T> = Iter<'a, T>;
pub type SymmetricDifference<'a, T> = Iter<'a, T>;

impl<T> Clone for Iter<'_, T> {
    fn clone(&self) -> Self {
        Self {
            mask: self.mask,
            _p: PhantomData,
        }
    }
}

impl<T> fmt::Debug for Iter<'_, T> {
    fn fmt(&self, f: &mut fmt::Formatter<'_>) -> fmt::Result {
        f.write_str("Iter")
    }
}

impl<'a, T: Key> Iterator for Iter<'a, T> {
    type Item = &'a T;

    #[inline]
    fn next(&mut self) -> Option<&'a T> {
        if self.mask == 0 {
            return None;
        }

        let i = self.mask.trailing_zeros() as usize;

        self.mask &= self.mask - 1;

        Some(&T::table()[i])
    }

    fn size_hint(&self) -> (usize, Option<usize>) {
        let n = self.mask.count_ones() as usize;

        (n, Some(n))
    }

    fn min(mut self) -> Option<&'a T> {
        self.next()
    }

    fn max(mut self) -> Option<&'a T> {
        self.next_back()
    }
}

impl<T: Key> DoubleEndedIterator for Iter<'_, T> {
    fn next_back(&mut self) -> Option<Self::Item> {
        if self.mask == 0 {
            return None;
        }

        let i = 63 - self.mask.leading_zeros() as usize;

        self.mask &= !bit(i);

        Some(&T::table()[i])
    }
}

impl<T: Key> ExactSizeIterator for Iter<'_, T> {}

/// Owning ascending iterator.
pub struct IntoIter<T> {
    mask: u64,
    _p: PhantomData<T>,
}

impl<T> fmt::Debug for IntoIter<T> {
    fn fmt(&self, f: &mut fmt::Formatter<'_>) -> fmt::Result {
        f.write_str("IntoIter")
    }
}

impl<T: Key> Iterator for IntoIter<T> {
    type Item = T;

    #[inline]
    fn next(&mut self) -> Option<T> {
        if self.mask == 0 {
            return None;
        }

        let i = self.mask.trailing_zeros() as usize;

        self.mask &= self.mask - 1;

        Some(T::table()[i])
    }

    fn size_hint(&self) -> (usize, Option<usize>) {
        let n = self.mask.count_ones() as usize;

        (n, Some(n))
    }
}

impl<T: Key> DoubleEndedIterator for IntoIter<T> {
    fn next_back(&mut self) -> Option<T> {
        if self.mask == 0 {
            return None;
        }

        let i = 63 - self.mask.leading_zeros() as usize;

        self.mask &= !bit(i);

        Some(T::table()[i])
    }
}

impl<T: Key> ExactSizeIterator for IntoIter<T> {}

impl<T: Key> IntoIterator for BTreeSet<T> {
    type IntoIter = IntoIter<T>;
    type Item = T;

    fn into_iter(self) -> IntoIter<T> {
        IntoIter {
            mask: self.mask,
            _p: PhantomData,
        }
    }
}

impl<'a, T: Key> IntoIterator for &'a BTreeSet<T> {
    type IntoIter = Iter<'a, T>;
    type Item = &'a T;

    fn into_iter(self) -> Iter<'a, T> {
        self.iter()
    }
}

impl<T: Key> FromIterator<T> for BTreeSet<T> {
    fn from_iter<I: IntoIterator<Item = T>>(iter: I) -> Self {
        let mut set = Self::new();

        for x in iter {
            let _ = set.insert(x);
        }

        set
    }
}

impl<T: Key> Extend<T> for BTreeSet<T> {
    fn extend<I: IntoIterator<Item = T>>(&mut self, iter: I) {
        for x in iter {
            let _ = self.insert(x);
        }
    }
}

impl<'a, T: Key> Extend<&'a T> for BTreeSet<T> {
    fn extend<I: IntoIterator<Item = &'a T>>(&mut self, iter: I) {
        for x in iter {
            let _ = self.insert(*x);
        }
    }
}

impl<T: Key, const N: usize> From<[T; N]> for BTreeSet<T> {
    fn from(arr: [T; N]) -> Self {
        let mut set = Self::new();
        let mut i = 0;

        while i < N {
            let _ = set.insert(arr[i]);
            i += 1;
        }

        set
    }
}

impl<T> Default for BTreeSet<T> {
    fn default() -> Self {
        Self::new()
    }
}

impl<T> Clone for BTreeSet<T> {
    #[inline]
    fn clone(&self) -> Self {
        Self::from_mask(self.mask)
    }
}

impl<T> PartialEq for BTreeSet<T> {
    #[inline]
    fn eq(&self, other: &Self) -> bool {
        self.mask == other.mask
    }
}

impl<T> Eq for BTreeSet<T> {}

/// Lexicographic comparison of the ascending element sequences, as `std`
/// does it, computed on the masks: below the lowest differing bit `d` the two
/// sequences agree; the set that has `d` is smaller unless the other one has
/// no further element (then the other one is a proper prefix).
impl<T> Ord for BTreeSet<T> {
    fn cmp(&self, other: &Self) -> Ordering {
        let (a, b) = (self.mask, other.mask);

        if a == b {
            return Ordering::Equal;
        }

        let d = (a ^ b).trailing_zeros();
        let above = if d == 63 { 0 } else { !0_u64 << (d + 1) };
        let at = 1_u64 << d;

        if a & at != 0 {
            // `other` lacks d: it continues with something larger, or ends.
            if b & above != 0 {
                Ordering::Less
            } else {
                Ordering::Greater
            }
        } else if a & above != 0 {
            Ordering::Greater
        } else {
            Ordering::Less
        }
    }
}

impl<T> PartialOrd for BTreeSet<T> {
    fn partial_cmp(&self, other: &Self) -> Option<Ordering> {
        Some(self.cmp(other))
    }
}

impl<T: Key> Hash for BTreeSet<T> {
    fn hash<H: Hasher>(&self, state: &mut H) {
        state.write_usize(self.len());

        for x in self {
            x.hash(state);
        }
    }
}

impl<T: Key> fmt::Debug for BTreeSet<T> {
    fn fmt(&self, f: &mut fmt::Formatter<'_>) -> fmt::Result {
        f.debug_set().entries(self.iter()).finish()
    }
}

impl<T: Key> ::std::ops::Sub<&BTreeSet<T>> for &BTreeSet<T> {
    type Output = BTreeSet<T>;

    fn sub(self, rhs: &BTreeSet<T>) -> BTreeSet<T> {
        BTreeSet::from_mask(self.mask & !rhs.mask)
    }
}

impl<T: Key> ::std::ops::BitOr<&BTreeSet<T>> for &BTreeSet<T> {
    type Output = BTreeSet<T>;

    fn bitor(self, rhs: &BTreeSet<T>) -> BTreeSet<T> {
        BTreeSet::from_mask(self.mask | rhs.mask)
    }
}

impl<T: Key> ::std::ops::BitAnd<&BTreeSet<T>> for &BTreeSet<T> {
    type Output = BTreeSet<T>;

    fn bitand(self, rhs: &BTreeSet<T>) -> BTreeSet<T> {
        BTreeSet::from_mask(self.mask & rhs.mask)
    }
}
