//! `VecDeque<T>` as a linear buffer with a moving head: capacity
//! `verif::vcap()` *pushes* in total (no wrap-around, no growth).

use {
    crate::rawbuf::RawBuf,
    ::std::{
        fmt,
        ptr,
    },
};

pub struct VecDeque<T> {
    buf: RawBuf<T>,
    head: usize,
    tail: usize,
}

impl<T> VecDeque<T> {
    #[must_use]
    pub const fn new() -> Self {
        Self {
            buf: RawBuf::empty(),
            head: 0,
            tail: 0,
        }
    }

    #[must_use]
    pub fn with_capacity(_capacity: usize) -> Self {
        Self::new()
    }

    #[must_use]
    pub const fn len(&self) -> usize {
        self.tail - self.head
    }

    #[must_use]
    pub const fn is_empty(&self) -> bool {
        self.tail == self.head
    }

    pub fn push_back(&mut self, value: T) {
        if self.buf.cap == 0 {
            self.buf = RawBuf::with_cap(crate::verif::vcap());
        }

        if self.tail >= self.buf.cap {
            crate::verif_capacity!("VecDeque: more pushes than VCAP");
        }

        unsafe { ptr::write(self.buf.ptr.add(self.tail), value) };

        self.tail += 1;
    }

    pub fn pop_front(&mut self) -> Option<T> {
        if self.head == self.tail {
            return None;
        }

        let v = unsafe { ptr::read(self.buf.ptr.add(self.head)) };

        self.head += 1;

        Some(v)
    }

    pub fn pop_back(&mut self) -> Option<T> {
        if self.head == self.tail {
            return None;
        }

        self.tail -= 1;

        Some(unsafe { ptr::read(self.buf.ptr.add(self.tail)) })
    }

    #[must_use]
    pub fn front(&self) -> Option<&T> {
        if self.head == self.tail {
            None
        } else {
            Some(unsafe { &*self.buf.ptr.add(self.head) })
        }
    }

    #[must_use]
    pub fn back(&self) -> Option<&T> {
        if self.head == self.tail {
            None
        } else {
            Some(unsafe { &*self.buf.ptr.add(self.tail - 1) })
        }
    }

    #[must_use]
    pub fn get(&self, i: usize) -> Option<&T> {
        if i < self.len() {
            Some(unsafe { &*self.buf.ptr.add(self.head + i) })
        } else {
            None
        }
    }

    #[must_use]
    pub fn as_slice(&self) -> &[T] {
        unsafe {
            ::std::slice::from_raw_parts(
                self.buf.ptr.add(self.head),
                self.tail - self.head,
            )
        }
    }

    pub fn iter(&self) -> ::std::slice::Iter<'_, T> {
        self.as_slice().iter()
    }

    pub fn clear(&mut self) {
        while self.pop_front().is_some() {}
    }
}

impl<T> Drop for VecDeque<T> {
    fn drop(&mut self) {
        if ::std::mem::needs_drop::<T>() {
            self.clear();
        }

        self.buf.free();
    }
}

impl<T> Default for VecDeque<T> {
    fn default() -> Self {
        Self::new()
    }
}

impl<T: Clone> Clone for VecDeque<T> {
    fn clone(&self) -> Self {
        let mut out = Self::new();

        for x in self.iter() {
            out.push_back(x.clone());
        }

        out
    }
}

impl<T: PartialEq> PartialEq for VecDeque<T> {
    fn eq(&self, other: &Self) -> bool {
        self.as_slice() == other.as_slice()
    }
}

impl<T: Eq> Eq for VecDeque<T> {}

impl<T: fmt::Debug> fmt::Debug for VecDeque<T> {
    fn fmt(&self, f: &mut fmt::Formatter<'_>) -> fmt::Result {
        f.debug_list().entries(self.iter()).finish()
    }
}

impl<T> FromIterator<T> for VecDeque<T> {
    fn from_iter<I: IntoIterator<Item = T>>(iter: I) -> Self {
        let mut out = Self::new();

        for x in iter {
            out.push_back(x);
        }

        out
    }
}

impl<T> Extend<T> for VecDeque<T> {
    fn extend<I: IntoIterator<Item = T>>(&mut self, iter: I) {
        for x in iter {
            self.push_back(x);
        }
    }
}
