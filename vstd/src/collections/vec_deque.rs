//! `VecDeque<T>` as a typed inline array of `CAP` optional slots with a
//! moving head: at most `CAP` *pushes* in total (no wrap-around, no growth).
//! No heap object and no union: every access is a typed array select/store.

use ::std::fmt;

#[cfg(all(not(feature = "cap16"), not(feature = "cap4")))]
pub const CAP: usize = 8;
#[cfg(feature = "cap16")]
pub const CAP: usize = 16;
#[cfg(all(feature = "cap4", not(feature = "cap16")))]
pub const CAP: usize = 4;

pub struct VecDeque<T> {
    items: [Option<T>; CAP],
    head: usize,
    tail: usize,
}

impl<T> VecDeque<T> {
    #[must_use]
    pub const fn new() -> Self {
        Self {
            items: [const { None }; CAP],
            head: 0,
            tail: 0,
        }
    }

    #[must_use]
    pub fn with_capacity(_capacity: usize) -> Self {
        Self::new()
    }

    #[must_use]
    pub const fn len(&self) -> usize {
        self.tail - self.head
    }

    #[must_use]
    pub const fn is_empty(&self) -> bool {
        self.tail == self.head
    }

    pub fn push_back(&mut self, value: T) {
        if self.tail >= CAP || self.tail >= crate::verif::vcap() {
            crate::verif_capacity!("VERIF-CAPACITY: VecDeque: more pushes than the model capacity");
        }

        self.items[self.tail] = Some(value);
        self.tail += 1;
    }

    pub fn pop_front(&mut self) -> Option<T> {
        if self.head == self.tail {
            return None;
        }

        let v = self.items[self.head].take();

        self.head += 1;

        v
    }

    pub fn pop_back(&mut self) -> Option<T> {
        if self.head == self.tail {
            return None;
        }

        self.tail -= 1;

        self.items[self.tail].take()
    }

    #[must_use]
    pub fn front(&self) -> Option<&T> {
        if self.head == self.tail {
            None
        } else {
            self.items[self.head].as_ref()
        }
    }

    #[must_use]
    pub fn back(&self) -> Option<&T> {
        if self.head == self.tail {
            None
        } else {
            self.items[self.tail - 1].as_ref()
        }
    }

    #[must_use]
    pub fn get(&self, i: usize) -> Option<&T> {
        if i < self.len() {
            self.items[self.head + i].as_ref()
        } else {
            None
        }
    }

    pub fn iter(&self) -> Iter<'_, T> {
        Iter {
            q: self,
            i: self.head,
        }
    }

    pub fn clear(&mut self) {
        while self.pop_front().is_some() {}
    }
}

pub struct Iter<'a, T> {
    q: &'a VecDeque<T>,
    i: usize,
}

impl<'a, T> Iterator for Iter<'a, T> {
    type Item = &'a T;

    fn next(&mut self) -> Option<&'a T> {
        if self.i >= self.q.tail {
            return None;
        }

        let r = self.q.items[self.i].as_ref();

        self.i += 1;

        r
    }
}

impl<T> Default for VecDeque<T> {
    fn default() -> Self {
        Self::new()
    }
}

impl<T: Clone> Clone for VecDeque<T> {
    fn clone(&self) -> Self {
        let mut out = Self::new();

        out.head = self.head;
        out.tail = self.tail;

        let mut i = 0;

        while i < CAP {
            out.items[i] = self.items[i].clone();
            i += 1;
        }

        out
    }
}

impl<T: PartialEq> PartialEq for VecDeque<T> {
    fn eq(&self, other: &Self) -> bool {
        if self.len() != other.len() {
            return false;
        }

        let mut i = 0;

        while i < CAP {
            if i < self.len()
                && self.items[self.head + i] != other.items[other.head + i]
            {
                return false;
            }

            i += 1;
        }

        true
    }
}

impl<T: Eq> Eq for VecDeque<T> {}

impl<T: fmt::Debug> fmt::Debug for VecDeque<T> {
    fn fmt(&self, f: &mut fmt::Formatter<'_>) -> fmt::Result {
        f.debug_list().entries(self.iter()).finish()
    }
}

impl<T> FromIterator<T> for VecDeque<T> {
    fn from_iter<I: IntoIterator<Item = T>>(iter: I) -> Self {
        let mut out = Self::new();

        for x in iter {
            out.push_back(x);
        }

        out
    }
}

impl<T> Extend<T> for VecDeque<T> {
    fn extend<I: IntoIterator<Item = T>>(&mut self, iter: I) {
        for x in iter {
            self.push_back(x);
        }
    }
}
