//! `BinaryHeap<T>` as a typed inline array of `CAP` optional slots (unsorted);
//! `pop` removes a maximum found by a linear scan. At most `CAP` live
//! elements. Which of several *equal* maxima is returned is unspecified in
//! `std` as well. No heap object, no union.

use {
    super::vec_deque::CAP,
    ::std::fmt,
};

pub struct BinaryHeap<T> {
    items: [Option<T>; CAP],
    len: usize,
}

impl<T> BinaryHeap<T> {
    #[must_use]
    pub const fn len(&self) -> usize {
        self.len
    }

    #[must_use]
    pub const fn is_empty(&self) -> bool {
        self.len == 0
    }

    pub fn iter(&self) -> Iter<'_, T> {
        Iter { h: self, i: 0 }
    }

    pub fn clear(&mut self) {
        let mut i = 0;

        while i < CAP {
            self.items[i] = None;
            i += 1;
        }

        self.len = 0;
    }
}

pub struct Iter<'a, T> {
    h: &'a BinaryHeap<T>,
    i: usize,
}

impl<'a, T> Iterator for Iter<'a, T> {
    type Item = &'a T;

    fn next(&mut self) -> Option<&'a T> {
        if self.i >= self.h.len {
            return None;
        }

        let r = self.h.items[self.i].as_ref();

        self.i += 1;

        r
    }
}

impl<T: Ord> BinaryHeap<T> {
    #[must_use]
    pub const fn new() -> Self {
        Self {
            items: [const { None }; CAP],
            len: 0,
        }
    }

    #[must_use]
    pub fn with_capacity(_capacity: usize) -> Self {
        Self::new()
    }

    pub fn push(&mut self, item: T) {
        if self.len >= CAP || self.len >= crate::verif::vcap() {
            crate::verif_capacity!("VERIF-CAPACITY: BinaryHeap: more live elements than the model capacity");
        }

        self.items[self.len] = Some(item);
        self.len += 1;
    }

    fn argmax(&self) -> usize {
        let mut best = 0;
        let mut i = 1;

        while i < self.len {
            // slots below `len` are always `Some`
            if self.items[i] > self.items[best] {
                best = i;
            }

            i += 1;
        }

        best
    }

    pub fn pop(&mut self) -> Option<T> {
        if self.len == 0 {
            return None;
        }

        let best = self.argmax();
        let item = self.items[best].take();

        self.len -= 1;

        if best != self.len {
            self.items[best] = self.items[self.len].take();
        }

        item
    }

    #[must_use]
    pub fn peek(&self) -> Option<&T> {
        if self.len == 0 {
            None
        } else {
            self.items[self.argmax()].as_ref()
        }
    }
}

impl<T: Ord> Default for BinaryHeap<T> {
    fn default() -> Self {
        Self::new()
    }
}

impl<T: Ord + Clone> Clone for BinaryHeap<T> {
    fn clone(&self) -> Self {
        let mut out = Self::new();
        let mut i = 0;

        out.len = self.len;

        while i < CAP {
            out.items[i] = self.items[i].clone();
            i += 1;
        }

        out
    }
}

impl<T: fmt::Debug> fmt::Debug for BinaryHeap<T> {
    fn fmt(&self, f: &mut fmt::Formatter<'_>) -> fmt::Result {
        f.debug_list().entries(self.iter()).finish()
    }
}

impl<T: Ord> FromIterator<T> for BinaryHeap<T> {
    fn from_iter<I: IntoIterator<Item = T>>(iter: I) -> Self {
        let mut out = Self::new();

        for x in iter {
            out.push(x);
        }

        out
    }
}

impl<T: Ord> Extend<T> for BinaryHeap<T> {
    fn extend<I: IntoIterator<Item = T>>(&mut self, iter: I) {
        for x in iter {
            self.push(x);
        }
    }
}
