//! `BinaryHeap<T>` as an unsorted buffer; `pop` removes a maximum found by a
//! linear scan. Capacity `verif::vcap()` live elements. Which of several
//! *equal* maxima is returned is unspecified in `std` as well.

use {
    crate::rawbuf::RawBuf,
    ::std::{
        fmt,
        ptr,
    },
};

pub struct BinaryHeap<T> {
    buf: RawBuf<T>,
    len: usize,
}

impl<T> BinaryHeap<T> {
    #[must_use]
    pub const fn len(&self) -> usize {
        self.len
    }

    #[must_use]
    pub const fn is_empty(&self) -> bool {
        self.len == 0
    }

    #[must_use]
    pub fn as_slice(&self) -> &[T] {
        unsafe { ::std::slice::from_raw_parts(self.buf.ptr, self.len) }
    }

    pub fn iter(&self) -> ::std::slice::Iter<'_, T> {
        self.as_slice().iter()
    }

    pub fn clear(&mut self) {
        while self.len > 0 {
            self.len -= 1;

            unsafe { ptr::drop_in_place(self.buf.ptr.add(self.len)) };
        }
    }
}

impl<T: Ord> BinaryHeap<T> {
    #[must_use]
    pub const fn new() -> Self {
        Self {
            buf: RawBuf::empty(),
            len: 0,
        }
    }

    #[must_use]
    pub fn with_capacity(_capacity: usize) -> Self {
        Self::new()
    }

    pub fn push(&mut self, item: T) {
        if self.buf.cap == 0 {
            self.buf = RawBuf::with_cap(crate::verif::vcap());
        }

        if self.len >= self.buf.cap {
            crate::verif_capacity!("BinaryHeap: more live elements than VCAP");
        }

        unsafe { ptr::write(self.buf.ptr.add(self.len), item) };

        self.len += 1;
    }

    fn argmax(&self) -> usize {
        let mut best = 0;
        let mut i = 1;

        while i < self.len {
            unsafe {
                if *self.buf.ptr.add(i) > *self.buf.ptr.add(best) {
                    best = i;
                }
            }

            i += 1;
        }

        best
    }

    pub fn pop(&mut self) -> Option<T> {
        if self.len == 0 {
            return None;
        }

        let best = self.argmax();

        unsafe {
            let item = ptr::read(self.buf.ptr.add(best));

            self.len -= 1;

            if best != self.len {
                ptr::write(
                    self.buf.ptr.add(best),
                    ptr::read(self.buf.ptr.add(self.len)),
                );
            }

            Some(item)
        }
    }

    #[must_use]
    pub fn peek(&self) -> Option<&T> {
        if self.len == 0 {
            None
        } else {
            Some(unsafe { &*self.buf.ptr.add(self.argmax()) })
        }
    }
}

impl<T> Drop for BinaryHeap<T> {
    fn drop(&mut self) {
        if ::std::mem::needs_drop::<T>() {
            self.clear();
        }

        self.buf.free();
    }
}

impl<T: Ord> Default for BinaryHeap<T> {
    fn default() -> Self {
        Self::new()
    }
}

impl<T: Ord + Clone> Clone for BinaryHeap<T> {
    fn clone(&self) -> Self {
        let mut out = Self::new();

        for x in self.iter() {
            out.push(x.clone());
        }

        out
    }
}

impl<T: fmt::Debug> fmt::Debug for BinaryHeap<T> {
    fn fmt(&self, f: &mut fmt::Formatter<'_>) -> fmt::Result {
        f.debug_list().entries(self.iter()).finish()
    }
}

impl<T: Ord> FromIterator<T> for BinaryHeap<T> {
    fn from_iter<I: IntoIterator<Item = T>>(iter: I) -> Self {
        let mut out = Self::new();

        for x in iter {
            out.push(x);
        }

        out
    }
}

impl<T: Ord> Extend<T> for BinaryHeap<T> {
    fn extend<I: IntoIterator<Item = T>>(&mut self, iter: I) {
        for x in iter {
            self.push(x);
        }
    }
}
