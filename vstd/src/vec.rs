//! `Vec<T>` model (flavour F2): one typed heap buffer, at most one re-size.
//!
//! * `vec![x; n]`, `with_capacity(n)`, `collect()`/`from` of a known length:
//!   buffer of exactly that many slots (so the model checker's object bounds
//!   are the real ones for vectors that never grow);
//! * `Vec::new()` + `push`: buffer of `verif::vcap()` slots on first push;
//! * a push onto a full buffer moves the elements once into a `vcap()` buffer
//!   (typed element-wise copy, no `realloc`); beyond `vcap()`:
//!   `VERIF-CAPACITY`.
//!
//! `get_unchecked(_mut)` are inherent here and check `index < len` (the
//! slice versions would only be checked against the *buffer*).

use {
    crate::rawbuf::RawBuf,
    ::std::{
        cmp::Ordering,
        fmt,
        hash::{
            Hash,
            Hasher,
        },
        mem,
        ops::{
            Deref,
            DerefMut,
        },
        ptr,
        slice,
    },
};

pub struct Vec<T> {
    buf: RawBuf<T>,
    len: usize,
    /// Created with an exact size (`vec![x; n]`, `with_capacity`, `from`):
    /// only such a vector is ever re-sized. Kept as a separate (almost always
    /// concrete) flag so that the model checker can prune the re-size path of
    /// vectors that start empty.
    exact: bool,
}

unsafe impl<T: Send> Send for Vec<T> {}
unsafe impl<T: Sync> Sync for Vec<T> {}

impl<T> Vec<T> {
    #[must_use]
    pub const fn new() -> Self {
        Self {
            buf: RawBuf::empty(),
            len: 0,
            exact: false,
        }
    }

    #[must_use]
    pub fn with_capacity(capacity: usize) -> Self {
        if capacity > crate::verif::vcap() {
            crate::verif_capacity!("VERIF-CAPACITY: Vec::with_capacity beyond VCAP");
        }

        Self::with_capacity_unchecked(capacity)
    }

    #[must_use]
    pub const fn len(&self) -> usize {
        self.len
    }

    #[must_use]
    pub const fn is_empty(&self) -> bool {
        self.len == 0
    }

    #[must_use]
    pub const fn capacity(&self) -> usize {
        self.buf.cap
    }

    #[must_use]
    pub const fn as_ptr(&self) -> *const T {
        self.buf.ptr
    }

    #[must_use]
    pub const fn as_mut_ptr(&mut self) -> *mut T {
        self.buf.ptr
    }

    #[must_use]
    pub fn as_slice(&self) -> &[T] {
        unsafe { slice::from_raw_parts(self.buf.ptr, self.len) }
    }

    #[must_use]
    pub fn as_mut_slice(&mut self) -> &mut [T] {
        unsafe { slice::from_raw_parts_mut(self.buf.ptr, self.len) }
    }

    /// # Safety
    ///
    /// As `std`: `new_len <= capacity()` and the elements are initialised.
    pub unsafe fn set_len(&mut self, new_len: usize) {
        assert!(new_len <= self.buf.cap, "Vec::set_len beyond capacity");

        self.len = new_len;
    }

    pub fn reserve(&mut self, additional: usize) {
        if self.len + additional > self.buf.cap {
            self.grow();

            if self.len + additional > self.buf.cap {
                crate::verif_capacity!("VERIF-CAPACITY: Vec::reserve beyond VCAP");
            }
        }
    }

    fn grow(&mut self) {
        let vcap = crate::verif::vcap();

        if self.buf.cap >= vcap {
            crate::verif_capacity!("VERIF-CAPACITY: Vec: more elements than VCAP");
        }

        if !self.exact {
            // started empty: the buffer is either unallocated or has `vcap` slots
            if self.buf.cap != 0 {
                crate::verif_capacity!("VERIF-CAPACITY: Vec: more elements than VCAP");
            }

            self.buf = RawBuf::with_cap(vcap);
        } else if self.buf.cap == 0 {
            self.buf = RawBuf::with_cap(vcap);
            self.exact = false;
        } else {
            self.buf.regrow(self.len, vcap);
            self.exact = false;
        }
    }

    pub fn push(&mut self, value: T) {
        if self.len == self.buf.cap {
            self.grow();
        }

        unsafe { ptr::write(self.buf.ptr.add(self.len), value) };

        self.len += 1;
    }

    pub fn pop(&mut self) -> Option<T> {
        if self.len == 0 {
            return None;
        }

        self.len -= 1;

        Some(unsafe { ptr::read(self.buf.ptr.add(self.len)) })
    }

    /// # Panics
    ///
    /// Panics if `index >= len`.
    pub fn remove(&mut self, index: usize) -> T {
        assert!(index < self.len, "removal index out of bounds");

        unsafe {
            let item = ptr::read(self.buf.ptr.add(index));
            let mut i = index;

            while i + 1 < self.len {
                ptr::write(
                    self.buf.ptr.add(i),
                    ptr::read(self.buf.ptr.add(i + 1)),
                );

                i += 1;
            }

            self.len -= 1;

            item
        }
    }

    /// # Panics
    ///
    /// Panics if `index > len`.
    pub fn insert(&mut self, index: usize, value: T) {
        assert!(index <= self.len, "insertion index out of bounds");

        if self.len == self.buf.cap {
            self.grow();
        }

        unsafe {
            let mut i = self.len;

            while i > index {
                ptr::write(
                    self.buf.ptr.add(i),
                    ptr::read(self.buf.ptr.add(i - 1)),
                );

                i -= 1;
            }

            ptr::write(self.buf.ptr.add(index), value);
        }

        self.len += 1;
    }

    /// # Panics
    ///
    /// Panics if `index >= len`.
    pub fn swap_remove(&mut self, index: usize) -> T {
        assert!(index < self.len, "swap_remove index out of bounds");

        unsafe {
            let item = ptr::read(self.buf.ptr.add(index));

            self.len -= 1;

            if index != self.len {
                ptr::write(
                    self.buf.ptr.add(index),
                    ptr::read(self.buf.ptr.add(self.len)),
                );
            }

            item
        }
    }

    pub fn truncate(&mut self, len: usize) {
        while self.len > len {
            self.len -= 1;

            if mem::needs_drop::<T>() {
                unsafe { ptr::drop_in_place(self.buf.ptr.add(self.len)) };
            }
        }
    }

    pub fn clear(&mut self) {
        self.truncate(0);
    }

    pub fn append(&mut self, other: &mut Self) {
        let n = other.len;
        let mut i = 0;

        other.len = 0;

        while i < n {
            self.push(unsafe { ptr::read(other.buf.ptr.add(i)) });
            i += 1;
        }
    }

    pub fn retain<F: FnMut(&T) -> bool>(&mut self, mut f: F) {
        let n = self.len;
        let mut kept = 0;
        let mut i = 0;

        self.len = 0;

        while i < n {
            unsafe {
                let item = ptr::read(self.buf.ptr.add(i));

                if f(&item) {
                    ptr::write(self.buf.ptr.add(kept), item);
                    kept += 1;
                } else {
                    drop(item);
                }
            }

            i += 1;
        }

        self.len = kept;
    }

    /// Checked stand-in for the slice method (see module docs).
    ///
    /// # Safety
    ///
    /// As `std`: `index < len`.
    #[must_use]
    pub unsafe fn get_unchecked(&self, index: usize) -> &T {
        assert!(
            index < self.len,
            "VERIF-UB: Vec::get_unchecked index out of bounds"
        );

        &*self.buf.ptr.add(index)
    }

    /// Checked stand-in for the slice method (see module docs).
    ///
    /// # Safety
    ///
    /// As `std`: `index < len`.
    #[must_use]
    pub unsafe fn get_unchecked_mut(&mut self, index: usize) -> &mut T {
        assert!(
            index < self.len,
            "VERIF-UB: Vec::get_unchecked_mut index out of bounds"
        );

        &mut *self.buf.ptr.add(index)
    }

    pub fn extend_from_slice(&mut self, other: &[T])
    where
        T: Clone,
    {
        for x in other {
            self.push(x.clone());
        }
    }

    pub fn resize(&mut self, new_len: usize, value: T)
    where
        T: Clone,
    {
        self.truncate(new_len);

        while self.len < new_len {
            self.push(value.clone());
        }
    }

    #[must_use]
    pub fn into_boxed_slice(self) -> Box<[T]> {
        self.into_iter().collect::<::std::vec::Vec<T>>().into_boxed_slice()
    }

    pub fn dedup(&mut self)
    where
        T: PartialEq,
    {
        let mut i = 1;

        while i < self.len {
            if self.as_slice()[i] == self.as_slice()[i - 1] {
                drop(self.remove(i));
            } else {
                i += 1;
            }
        }
    }
}

impl<T> Drop for Vec<T> {
    fn drop(&mut self) {
        if mem::needs_drop::<T>() {
            self.truncate(0);
        }

        self.buf.free();
    }
}

impl<T> Deref for Vec<T> {
    type Target = [T];

    #[inline]
    fn deref(&self) -> &[T] {
        self.as_slice()
    }
}

impl<T> DerefMut for Vec<T> {
    #[inline]
    fn deref_mut(&mut self) -> &mut [T] {
        self.as_mut_slice()
    }
}

impl<T> AsRef<[T]> for Vec<T> {
    fn as_ref(&self) -> &[T] {
        self.as_slice()
    }
}

impl<T> AsMut<[T]> for Vec<T> {
    fn as_mut(&mut self) -> &mut [T] {
        self.as_mut_slice()
    }
}

impl<T> ::std::borrow::Borrow<[T]> for Vec<T> {
    fn borrow(&self) -> &[T] {
        self.as_slice()
    }
}

impl<T> Default for Vec<T> {
    fn default() -> Self {
        Self::new()
    }
}

impl<T: Clone> Clone for Vec<T> {
    fn clone(&self) -> Self {
        let mut out = Self::with_capacity_unchecked(self.len);
        let mut i = 0;

        while i < self.len {
            unsafe {
                ptr::write(out.buf.ptr.add(i), (*self.buf.ptr.add(i)).clone());
            }

            i += 1;
            out.len = i;
        }

        out
    }
}

impl<T> Vec<T> {
    #[cfg(not(feature = "fixedcap"))]
    fn with_capacity_unchecked(capacity: usize) -> Self {
        Self {
            buf: RawBuf::with_cap(capacity),
            len: 0,
            exact: true,
        }
    }

    /// Feature `fixedcap`: every vector gets a `vcap()`-slot buffer, whatever
    /// size was asked for (<= vcap). Used where the requested size is a symbolic
    /// value: a symbolic-size allocation makes CBMC run out of memory. Object
    /// bounds are then `vcap`, not the requested size.
    #[cfg(feature = "fixedcap")]
    fn with_capacity_unchecked(capacity: usize) -> Self {
        if capacity > crate::verif::vcap() {
            crate::verif_capacity!("VERIF-CAPACITY: Vec of more than VCAP elements (fixedcap)");
        }

        Self {
            buf: RawBuf::with_cap(crate::verif::vcap()),
            len: 0,
            exact: false,
        }
    }
}

/// `vec![elem; n]`.
#[must_use]
pub fn from_elem<T: Clone>(elem: T, n: usize) -> Vec<T> {
    if n > crate::verif::vcap() {
        crate::verif_capacity!("VERIF-CAPACITY: vec![x; n] beyond VCAP");
    }

    let mut out: Vec<T> = Vec::with_capacity_unchecked(n);
    let mut i = 0;

    while i < n {
        unsafe { ptr::write(out.buf.ptr.add(i), elem.clone()) };

        i += 1;
        out.len = i;
    }

    out
}

impl<T: PartialEq> PartialEq for Vec<T> {
    fn eq(&self, other: &Self) -> bool {
        self.as_slice() == other.as_slice()
    }
}

impl<T: PartialEq, const N: usize> PartialEq<[T; N]> for Vec<T> {
    fn eq(&self, other: &[T; N]) -> bool {
        self.as_slice() == other.as_slice()
    }
}

impl<T: PartialEq> PartialEq<[T]> for Vec<T> {
    fn eq(&self, other: &[T]) -> bool {
        self.as_slice() == other
    }
}

impl<T: PartialEq> PartialEq<&[T]> for Vec<T> {
    fn eq(&self, other: &&[T]) -> bool {
        self.as_slice() == *other
    }
}

impl<T: Eq> Eq for Vec<T> {}

impl<T: PartialOrd> PartialOrd for Vec<T> {
    fn partial_cmp(&self, other: &Self) -> Option<Ordering> {
        self.as_slice().partial_cmp(other.as_slice())
    }
}

impl<T: Ord> Ord for Vec<T> {
    fn cmp(&self, other: &Self) -> Ordering {
        self.as_slice().cmp(other.as_slice())
    }
}

impl<T: Hash> Hash for Vec<T> {
    fn hash<H: Hasher>(&self, state: &mut H) {
        self.as_slice().hash(state);
    }
}

impl<T: fmt::Debug> fmt::Debug for Vec<T> {
    fn fmt(&self, f: &mut fmt::Formatter<'_>) -> fmt::Result {
        self.as_slice().fmt(f)
    }
}

impl<T> FromIterator<T> for Vec<T> {
    fn from_iter<I: IntoIterator<Item = T>>(iter: I) -> Self {
        let mut out = Self::new();

        for x in iter {
            out.push(x);
        }

        out
    }
}

impl<T> Extend<T> for Vec<T> {
    fn extend<I: IntoIterator<Item = T>>(&mut self, iter: I) {
        for x in iter {
            self.push(x);
        }
    }
}

impl<'a, T: Copy + 'a> Extend<&'a T> for Vec<T> {
    fn extend<I: IntoIterator<Item = &'a T>>(&mut self, iter: I) {
        for x in iter {
            self.push(*x);
        }
    }
}

impl<T, const N: usize> From<[T; N]> for Vec<T> {
    fn from(arr: [T; N]) -> Self {
        let mut out = Self::with_capacity_unchecked(N);

        for x in arr {
            out.push(x);
        }

        out
    }
}

impl<T: Clone> From<&[T]> for Vec<T> {
    fn from(s: &[T]) -> Self {
        let mut out = Self::with_capacity_unchecked(s.len());

        for x in s {
            out.push(x.clone());
        }

        out
    }
}

/// Owning iterator: the buffer plus a cursor.
pub struct IntoIter<T> {
    buf: RawBuf<T>,
    pos: usize,
    end: usize,
}

impl<T> IntoIter<T> {
    #[must_use]
    pub fn as_slice(&self) -> &[T] {
        unsafe {
            slice::from_raw_parts(
                self.buf.ptr.add(self.pos),
                self.end - self.pos,
            )
        }
    }
}

impl<T> Iterator for IntoIter<T> {
    type Item = T;

    #[inline]
    fn next(&mut self) -> Option<T> {
        if self.pos == self.end {
            return None;
        }

        let item = unsafe { ptr::read(self.buf.ptr.add(self.pos)) };

        self.pos += 1;

        Some(item)
    }

    fn size_hint(&self) -> (usize, Option<usize>) {
        let n = self.end - self.pos;

        (n, Some(n))
    }
}

impl<T> DoubleEndedIterator for IntoIter<T> {
    fn next_back(&mut self) -> Option<T> {
        if self.pos == self.end {
            return None;
        }

        self.end -= 1;

        Some(unsafe { ptr::read(self.buf.ptr.add(self.end)) })
    }
}

impl<T> ExactSizeIterator for IntoIter<T> {}

impl<T> Drop for IntoIter<T> {
    fn drop(&mut self) {
        if mem::needs_drop::<T>() {
            while self.pos < self.end {
                unsafe { ptr::drop_in_place(self.buf.ptr.add(self.pos)) };

                self.pos += 1;
            }
        }

        self.buf.free();
    }
}

impl<T: fmt::Debug> fmt::Debug for IntoIter<T> {
    fn fmt(&self, f: &mut fmt::Formatter<'_>) -> fmt::Result {
        f.debug_tuple("IntoIter").field(&self.as_slice()).finish()
    }
}

impl<T: Clone> Clone for IntoIter<T> {
    fn clone(&self) -> Self {
        Vec::from(self.as_slice()).into_iter()
    }
}

impl<T> IntoIterator for Vec<T> {
    type IntoIter = IntoIter<T>;
    type Item = T;

    fn into_iter(self) -> IntoIter<T> {
        let mut me = mem::ManuallyDrop::new(self);
        let buf = mem::replace(&mut me.buf, RawBuf::empty());

        IntoIter {
            buf,
            pos: 0,
            end: me.len,
        }
    }
}

impl<'a, T> IntoIterator for &'a Vec<T> {
    type IntoIter = slice::Iter<'a, T>;
    type Item = &'a T;

    fn into_iter(self) -> slice::Iter<'a, T> {
        self.as_slice().iter()
    }
}

impl<'a, T> IntoIterator for &'a mut Vec<T> {
    type IntoIter = slice::IterMut<'a, T>;
    type Item = &'a mut T;

    fn into_iter(self) -> slice::IterMut<'a, T> {
        self.as_mut_slice().iter_mut()
    }
}

#[macro_export]
macro_rules! vec_model {
    () => {
        $crate::vec::Vec::new()
    };
    ($elem:expr; $n:expr) => {
        $crate::vec::from_elem($elem, $n)
    };
    ($($x:expr),+ $(,)?) => {
        $crate::vec::Vec::from([$($x),+])
    };
}
