//! A fixed-capacity heap buffer of `T` without unions: one `alloc`, typed
//! loads and stores, no `realloc`.

use ::std::{
    alloc::{
        alloc,
        dealloc,
        Layout,
    },
    marker::PhantomData,
    mem::size_of,
    ptr::{
        self,
        NonNull,
    },
};

pub(crate) struct RawBuf<T> {
    pub(crate) ptr: *mut T,
    pub(crate) cap: usize,
    _p: PhantomData<T>,
}

impl<T> RawBuf<T> {
    pub(crate) const fn empty() -> Self {
        Self {
            ptr: NonNull::<T>::dangling().as_ptr(),
            cap: 0,
            _p: PhantomData,
        }
    }

    pub(crate) fn with_cap(cap: usize) -> Self {
        if cap == 0 || size_of::<T>() == 0 {
            return Self {
                ptr: NonNull::<T>::dangling().as_ptr(),
                cap,
                _p: PhantomData,
            };
        }

        if cap > 4096 {
            crate::verif_capacity!("VERIF-CAPACITY: buffer of more than 4096 elements");
        }

        let layout = unsafe { Layout::from_size_align_unchecked(size_of::<T>() * cap, ::std::mem::align_of::<T>()) };
        let ptr = unsafe { alloc(layout) }.cast::<T>();

        assert!(!ptr.is_null());

        Self {
            ptr,
            cap,
            _p: PhantomData,
        }
    }

    /// Move the first `len` elements into a new buffer of `new_cap` slots.
    pub(crate) fn regrow(&mut self, len: usize, new_cap: usize) {
        let new = Self::with_cap(new_cap);
        let mut i = 0;

        while i < len {
            unsafe { ptr::write(new.ptr.add(i), ptr::read(self.ptr.add(i))) };
            i += 1;
        }

        self.free();
        self.ptr = new.ptr;
        self.cap = new.cap;
        ::std::mem::forget(new);
    }

    pub(crate) fn free(&mut self) {
        if self.cap != 0 && size_of::<T>() != 0 {
            let layout = unsafe { Layout::from_size_align_unchecked(size_of::<T>() * self.cap, ::std::mem::align_of::<T>()) };

            unsafe { dealloc(self.ptr.cast::<u8>(), layout) };
        }

        self.cap = 0;
        self.ptr = NonNull::<T>::dangling().as_ptr();
    }
}
