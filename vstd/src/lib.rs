//! `vstd` — `std` with bounded verification models.
//!
//! The transformed copy of graaf (`xform.py`) imports `vstd::…` wherever the
//! original imports `std::…`. Everything that is not overridden below *is*
//! `std` (glob re-export). Overridden, and therefore part of every claim made
//! with flavours F1/F2:
//!
//! * `collections::{BTreeSet, BTreeMap, VecDeque, BinaryHeap}` (+ `btree_set`,
//!   `btree_map` modules),
//! * `thread::{spawn, scope, available_parallelism, JoinHandle, Scope,
//!   ScopedJoinHandle}`,
//! * `sync::{Mutex, Once}` (`Arc` and atomics stay real),
//! * with feature `vecmodel`: `vec::{Vec, IntoIter}` and the `vec!` macro
//!   (through `shim_prelude`).
//!
//! Exceeding a model bound panics with a message starting `VERIF-CAPACITY`;
//! the runner classifies that as "bound too small", never as a pass and never
//! as a violation.

#![allow(clippy::all)]
#![allow(dead_code)]

pub use ::std::*;

pub mod verif;

pub mod collections;
pub mod sync;
pub mod thread;

mod rawbuf;

#[cfg(feature = "vecmodel")]
pub mod vec;

#[cfg(feature = "vecmodel")]
pub mod shim_prelude {
    //! Injected by `xform.py` (flavour F2) after each file's `//!` header:
    //! `use vstd::shim_prelude::{vec, Vec};`
    pub use crate::{
        vec::Vec,
        vec_model as vec,
    };
}

#[cfg(not(feature = "vecmodel"))]
pub mod shim_prelude {
    //! Flavour F1: the prelude's own `Vec` / `vec!`.
    pub use ::std::{
        vec,
        vec::Vec,
    };
}
