//! `std::sync` with single-threaded `Mutex` and `Once` (the thread model is
//! sequential). `Arc` and the atomics are the real ones.

pub use ::std::sync::{
    atomic,
    mpsc,
    Arc,
    LockResult,
    PoisonError,
    TryLockError,
    TryLockResult,
    Weak,
};

use ::std::{
    cell::{
        Cell,
        UnsafeCell,
    },
    fmt,
    ops::{
        Deref,
        DerefMut,
    },
};

pub struct Mutex<T: ?Sized> {
    locked: Cell<bool>,
    data: UnsafeCell<T>,
}

unsafe impl<T: ?Sized + Send> Send for Mutex<T> {}
unsafe impl<T: ?Sized + Send> Sync for Mutex<T> {}

pub struct MutexGuard<'a, T: ?Sized> {
    lock: &'a Mutex<T>,
}

impl<T> Mutex<T> {
    pub const fn new(t: T) -> Self {
        Self {
            locked: Cell::new(false),
            data: UnsafeCell::new(t),
        }
    }

    pub fn into_inner(self) -> LockResult<T> {
        Ok(self.data.into_inner())
    }
}

impl<T: ?Sized> Mutex<T> {
    /// # Panics
    ///
    /// Panics on re-entrant locking (a deadlock in `std`).
    pub fn lock(&self) -> LockResult<MutexGuard<'_, T>> {
        assert!(!self.locked.get(), "Mutex model: re-entrant lock (deadlock)");

        self.locked.set(true);

        Ok(MutexGuard { lock: self })
    }

    pub fn get_mut(&mut self) -> LockResult<&mut T> {
        Ok(self.data.get_mut())
    }
}

impl<T: ?Sized> Deref for MutexGuard<'_, T> {
    type Target = T;

    fn deref(&self) -> &T {
        unsafe { &*self.lock.data.get() }
    }
}

impl<T: ?Sized> DerefMut for MutexGuard<'_, T> {
    fn deref_mut(&mut self) -> &mut T {
        unsafe { &mut *self.lock.data.get() }
    }
}

impl<T: ?Sized> Drop for MutexGuard<'_, T> {
    fn drop(&mut self) {
        self.lock.locked.set(false);
    }
}

impl<T: ?Sized> fmt::Debug for Mutex<T> {
    fn fmt(&self, f: &mut fmt::Formatter<'_>) -> fmt::Result {
        f.write_str("Mutex")
    }
}

impl<T: Default> Default for Mutex<T> {
    fn default() -> Self {
        Self::new(T::default())
    }
}

pub struct Once {
    done: Cell<bool>,
}

unsafe impl Sync for Once {}

impl Once {
    #[must_use]
    pub const fn new() -> Self {
        Self {
            done: Cell::new(false),
        }
    }

    pub fn call_once<F: FnOnce()>(&self, f: F) {
        if !self.done.get() {
            self.done.set(true);
            f();
        }
    }

    #[must_use]
    pub fn is_completed(&self) -> bool {
        self.done.get()
    }
}

impl fmt::Debug for Once {
    fn fmt(&self, f: &mut fmt::Formatter<'_>) -> fmt::Result {
        f.write_str("Once")
    }
}
