//! Knobs the harness sets before calling graaf.

/// Capacity of `VecDeque` / `BinaryHeap` models and of a model `Vec` that was
/// created empty (`Vec::new()`); a `Vec` created with a size
/// (`vec![x; n]`, `with_capacity(n)`) gets exactly that size and is re-sized to
/// `VCAP` on the first push beyond it.
static mut VCAP: usize = 8;

/// What `available_parallelism()` returns. `0` means "returns `Err`".
static mut PARALLELISM: usize = 1;

/// Count of `thread::spawn` / `Scope::spawn` calls since the last reset.
static mut SPAWNED: usize = 0;

/// Set the container capacity bound.
pub fn set_vcap(n: usize) {
    unsafe { VCAP = n }
}

#[must_use]
pub fn vcap() -> usize {
    // native runs only (model validation with graaf's own tests): VSTD_VCAP overrides
    #[cfg(not(kani))]
    {
        static ENV: ::std::sync::OnceLock<Option<usize>> = ::std::sync::OnceLock::new();

        if let Some(v) = ENV.get_or_init(|| ::std::env::var("VSTD_VCAP").ok().and_then(|s| s.parse().ok())) {
            return *v;
        }
    }

    unsafe { VCAP }
}

/// Set the value reported by `thread::available_parallelism`.
pub fn set_parallelism(p: usize) {
    unsafe { PARALLELISM = p }
}

#[must_use]
pub fn parallelism() -> usize {
    unsafe { PARALLELISM }
}

pub fn note_spawn() {
    unsafe { SPAWNED += 1 }
}

#[must_use]
pub fn spawned() -> usize {
    unsafe { SPAWNED }
}

pub fn reset_spawned() {
    unsafe { SPAWNED = 0 }
}

/// Panic used for every exceeded model bound (literal message, so that the
/// model checker reports it verbatim).
#[macro_export]
macro_rules! verif_capacity {
    ($what:literal) => {
        panic!($what)
    };
}
