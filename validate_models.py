#!/usr/bin/env python3
"""Translator/model validation (Serval-style): graaf's OWN unit tests are compiled against the
transformed crate (flavours f1 and f2: model containers instead of std's) and run natively.
A test may fail only because it exceeds a model bound (VERIF-CAPACITY); any other failure means a
model does not refine std for an API graaf uses. Writes /verif/model_validation.json; exit 1 on a
discrepancy."""
import json, os, re, shutil, subprocess, sys
HERE = os.path.dirname(os.path.abspath(__file__))
sys.path.insert(0, HERE)
import xform
ENV = dict(os.environ, CARGO_NET_OFFLINE="true", VSTD_VCAP="4096")
base = os.path.join(os.environ.get("VERIF_SCRATCH", "/var/tmp/graaf-verif"), "validate-%d" % os.getpid())
res = {}
rc = 0
try:
    # f2 (Vec model) cannot compile graaf's test modules: their `use super::*` makes the injected `vec!`
    # ambiguous with the prelude's; the Vec model is covered by vstd/tests/diff.rs instead.
    for fl in ("f1",):
        d = os.path.join(base, fl)
        os.makedirs(d, exist_ok=True)
        xform.generate(fl, d, widen=False)
        g = os.path.join(d, "graaf")
        with open(os.path.join(g, "Cargo.toml"), "a") as fh:
            fh.write('\n[dev-dependencies]\nproptest = "1.6.0"\n\n[workspace]\n')
        shutil.copy(os.path.join(xform.REPO, "Cargo.lock"), g)
        p = subprocess.run(["cargo", "test", "--lib", "--offline"], cwd=g, env=ENV, stdout=subprocess.PIPE,
                           stderr=subprocess.STDOUT, text=True, errors="replace")
        out = p.stdout
        m = re.search(r"test result: \w+\. (\d+) passed; (\d+) failed", out)
        blocks = re.findall(r"---- (\S+) stdout ----\n(.*?)(?=\n---- |\nfailures:\n)", out, re.S)
        other = [n for n, b in blocks if "VERIF-CAPACITY" not in b]
        res[fl] = {"passed": int(m.group(1)) if m else None, "failed": int(m.group(2)) if m else None,
                   "failed_on_model_bound": len(blocks) - len(other), "failed_otherwise": other}
        if not m or other or (m and int(m.group(2)) != len(blocks)):
            rc = 1
            res[fl]["tail"] = out[-1500:]
        print(fl, json.dumps(res[fl])[:400], flush=True)
finally:
    shutil.rmtree(base, ignore_errors=True)
json.dump(res, open(os.path.join(HERE, "model_validation.json"), "w"), indent=1)
sys.exit(rc)
