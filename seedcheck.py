#!/usr/bin/env python3
"""Run a property's check against a seeded change WITHOUT touching /repo: the patch is applied to a
scratch copy of /repo's HEAD and run.py is pointed at it (VERIF_REPO), with its outputs redirected
(VERIF_OUT). Equivalent to `git -C /repo apply <patch>; run.py ...; git -C /repo checkout -- .`.

usage: seedcheck.py <seed-dir-name> [--only <harness-substring>] [--tier quick|thorough]
Writes /verif/seeded/<seed>/detect.json."""
import json, os, shutil, subprocess, sys, time
HERE = os.path.dirname(os.path.abspath(__file__))
seed = sys.argv[1]
only = sys.argv[sys.argv.index("--only") + 1] if "--only" in sys.argv else None
tier = sys.argv[sys.argv.index("--tier") + 1] if "--tier" in sys.argv else "quick"
sdir = os.path.join(HERE, "seeded", seed)
meta = json.load(open(os.path.join(sdir, "meta.json")))
prop = meta["property"]
work = f"/var/tmp/seedcheck-{seed}-{os.getpid()}"
repo = os.path.join(work, "repo")
out = os.path.join(work, "out")
os.makedirs(out)
subprocess.run(["git", "clone", "-q", "--no-hardlinks", "/repo", repo], check=True)
r = subprocess.run(["git", "-C", repo, "apply", os.path.join(sdir, "patch.diff")])
if r.returncode:
    print("patch does not apply"); sys.exit(9)
env = dict(os.environ, VERIF_REPO=repo, VERIF_OUT=out, VERIF_SCRATCH=os.path.join(work, "scratch"))
cmd = ["python3", os.path.join(HERE, "run.py"), prop, tier] + (["--only", only] if only else [])
t0 = time.time()
p = subprocess.run(cmd, cwd=HERE, env=env, stdout=subprocess.PIPE, stderr=subprocess.STDOUT, text=True)
res = {"seed": seed, "property": prop, "cmd": " ".join(cmd[1:]), "rc": p.returncode, "wall_s": round(time.time() - t0, 1),
       "detected": p.returncode == 1,
       "lines": [l for l in p.stdout.splitlines() if l.startswith(("VIOLATION", "KNOWN-FINDING", "INCONCLUSIVE", "  harness=", "[" + prop))]}
json.dump(res, open(os.path.join(sdir, "detect.json"), "w"), indent=1)
print(json.dumps(res, indent=1))
# keep the evidence of the run for diagnosis
evp = os.path.join(out, "evidence", prop + ".json")
if os.path.exists(evp):
    shutil.copy(evp, os.path.join(sdir, "evidence.json"))
# keep the replay values of a detected violation next to the seed
rp = os.path.join(out, "replays", prop)
if os.path.isdir(rp):
    shutil.rmtree(os.path.join(sdir, "replays"), ignore_errors=True)
    shutil.copytree(rp, os.path.join(sdir, "replays"))
shutil.rmtree(work, ignore_errors=True)
