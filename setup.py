#!/usr/bin/env python3
"""Offline setup: check the tools and build + self-test the container models.
Everything else is rebuilt from /repo's working tree by each check."""
import os
import subprocess
import sys

HERE = os.path.dirname(os.path.abspath(__file__))
ENV = dict(os.environ, CARGO_NET_OFFLINE="true")


def sh(cmd, cwd=HERE):
    print("+", " ".join(cmd), flush=True)
    return subprocess.run(cmd, cwd=cwd, env=ENV).returncode


def main():
    rc = sh(["cargo", "kani", "--version"])
    if rc:
        return rc
    tdir = os.path.join(os.environ.get("VERIF_SCRATCH", "/var/tmp/graaf-verif"), "setup-target")
    # differential self-test of the models against real std (native)
    rc = sh(["cargo", "test", "--features", "vecmodel", "--target-dir", tdir, "--quiet", "--", "--test-threads=1"],
            cwd=os.path.join(HERE, "vstd"))
    subprocess.run(["rm", "-rf", tdir])
    if rc:
        return rc
    # graaf's own unit tests against the transformed crate (model containers)
    return sh(["python3", "validate_models.py"])


if __name__ == "__main__":
    sys.exit(main())
