//! Kani proof harnesses for the properties in /verif/properties.jsonl.
//!
//! One source, three flavours (cargo features f0 | f1 | f2, see DESIGN.md §1.1).
//! Every harness carries a `// @verif key=value …` line that `run.py` reads:
//!   prop      property id
//!   tier      quick | thorough   (quick harnesses also run in the thorough tier)
//!   fl        flavour the harness is run in
//!   role      stable name used for known-findings matching
//!   vcap      value for vstd::verif::set_vcap (informational; set in code)
//!   t / mem   wall-clock limit (s) and address-space limit (GB) for CBMC

#![allow(clippy::all)]
#![allow(dead_code, unused_imports, unused_variables, unused_mut)]
#![allow(unexpected_cfgs)]

extern crate graaf;

/// Marker for `expect=panic` harnesses: placed right after a call the
/// documentation rejects. Reaching it means the call returned normally.
pub fn rejected_call_returned() -> ! {
    panic!("REJECTED-CALL-RETURNED: a call that the documentation rejects returned normally")
}

pub mod cx;
#[cfg(not(kani))]
#[path = "kani_shim.rs"]
pub mod kani;
pub mod nd;
pub mod oracle;
#[cfg(not(kani))]
pub mod registry;

pub mod c01_history;
pub mod c02_queries;
pub mod c03_dijkstra;
pub mod c04_bfs;
pub mod c05_pred;
pub mod c06_dfs;
pub mod c07_bellman_ford;
pub mod c08_floyd_warshall;
pub mod c09_tarjan;
pub mod c10_johnson;
pub mod c11_ops;
pub mod c12_predicates;
pub mod c13_memory;
pub mod c14_generators;
pub mod c15_random;
pub mod c16_conversions;
pub mod c17_threads;
pub mod c18_distance_matrix;
pub mod c20_eq_ord_hash;
pub mod c99_probe;
pub mod c19_predecessor_tree;
