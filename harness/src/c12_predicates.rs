//! C12 — structural predicates decide exactly their mathematical
//! definitions.

use {
    crate::{
        cx,
        nd,
        oracle::{
            G,
            GV,
        },
    },
    graaf::{
        AddArc,
        AddArcWeighted,
        AdjacencyList,
        AdjacencyListWeighted,
        AdjacencyMap,
        AdjacencyMatrix,
        EdgeList,
        Empty,
        IsComplete,
        IsOriented,
        IsRegular,
        IsSemicomplete,
        IsSimple,
        IsSpanningSubdigraph,
        IsSubdigraph,
        IsSuperdigraph,
        IsSymmetric,
        IsTournament,
        RemoveArc,
    },
};

#[cfg(not(kani))]
use crate::kani;

struct Defs {
    complete: bool,
    semicomplete: bool,
    tournament: bool,
    regular: bool,
    symmetric: bool,
    oriented: bool,
}

fn defs<const N: usize>(g: &G<N>) -> Defs {
    let mut d = Defs {
        complete: true,
        semicomplete: true,
        tournament: true,
        regular: true,
        symmetric: true,
        oriented: true,
    };
    let k = g.outdeg(0);

    for u in 0..N {
        if g.outdeg(u) != k || g.indeg(u) != k {
            d.regular = false;
        }

        for v in 0..N {
            if u != v {
                if !g.a[u][v] {
                    d.complete = false;
                }

                if !g.a[u][v] && !g.a[v][u] {
                    d.semicomplete = false;
                }

                if g.a[u][v] == g.a[v][u] {
                    d.tournament = false;
                }

                if g.a[u][v] && !g.a[v][u] {
                    d.symmetric = false;
                }

                if g.a[u][v] && g.a[v][u] {
                    d.oriented = false;
                }
            }
        }
    }

    d
}

pub trait Rep:
    Empty + AddArc + IsComplete + IsRegular + IsSemicomplete + IsTournament + IsSimple + IsSymmetric + IsOriented
{
}

impl Rep for AdjacencyList {}
impl Rep for AdjacencyMap {}
impl Rep for AdjacencyMatrix {}
impl Rep for EdgeList {}

pub fn inherent<R: Rep, const N: usize>(pmax: usize) {
    let cfg = pmax;
    let pmax = cx::threads_max(cfg);

    cx::set_vcap(N.max(pmax) + 1);

    let p = cx::threads(cfg);

    let g = G::<N>::any();
    let want = defs(&g);
    let mut d = R::empty(N);

    for u in 0..N {
        for v in 0..N {
            if g.a[u][v] {
                d.add_arc(u, v);
            }
        }
    }

    assert!(d.is_complete() == want.complete, "is_complete iff every ordered pair of distinct vertices is an arc");
    assert!(d.is_semicomplete() == want.semicomplete, "is_semicomplete iff every unordered pair is joined by at least one arc");
    assert!(d.is_tournament() == want.tournament, "is_tournament iff every unordered pair is joined by exactly one arc");
    assert!(d.is_regular() == want.regular, "is_regular iff all in- and outdegrees equal one constant");
    assert!(d.is_symmetric() == want.symmetric, "is_symmetric iff every arc has its reverse");
    assert!(d.is_oriented() == want.oriented, "is_oriented iff no arc has its reverse");
    assert!(d.is_simple(), "is_simple is true for every digraph built through the API");
    kani::cover!(want.tournament, "a tournament");
    kani::cover!(want.semicomplete && !want.tournament && !want.complete, "semicomplete, neither tournament nor complete");
    kani::cover!(g.size() >= N * (N - 1) / 2 && !want.semicomplete, "passes the size shortcut but is not semicomplete");
    kani::cover!(g.size() == N * (N - 1) / 2 && !want.tournament, "passes the size shortcut but is not a tournament");
    core::mem::forget(d);
}

fn weighted<const N: usize>() {
    cx::set_vcap(N + 1);

    let g = G::<N>::any();
    let want = defs(&g);
    let mut d = AdjacencyListWeighted::<usize>::empty(N);

    for u in 0..N {
        for v in 0..N {
            if g.a[u][v] {
                d.add_arc_weighted(u, v, nd::usize());
            }
        }
    }

    assert!(d.is_complete() == want.complete, "is_complete iff every ordered pair of distinct vertices is an arc");
    assert!(d.is_semicomplete() == want.semicomplete, "is_semicomplete iff every unordered pair is joined by at least one arc");
    assert!(d.is_tournament() == want.tournament, "is_tournament iff every unordered pair is joined by exactly one arc");
    assert!(d.is_regular() == want.regular, "is_regular iff all in- and outdegrees equal one constant");
    assert!(d.is_simple(), "is_simple is true for every digraph built through the API");
    core::mem::forget(d);
}

/// The blanket sub/super/spanning relations over digraphs with arbitrary
/// (unequal, non-contiguous) vertex sets within 0..N.
fn relations<const N: usize>() {
    cx::set_vcap(N + 1);

    let h = GV::<N>::any();
    let d = GV::<N>::any();
    let mut vsub = true;
    let mut veq = true;
    let mut asub = true;

    for u in 0..N {
        if h.v[u] && !d.v[u] {
            vsub = false;
        }

        if h.v[u] != d.v[u] {
            veq = false;
        }

        for v in 0..N {
            if h.a[u][v] && !d.a[u][v] {
                asub = false;
            }
        }
    }

    assert!(h.is_subdigraph(&d) == (vsub && asub), "is_subdigraph iff V(H) within V(D) and A(H) within A(D)");
    assert!(d.is_superdigraph(&h) == (vsub && asub), "is_superdigraph is the converse relation");
    assert!(h.is_spanning_subdigraph(&d) == (veq && asub), "is_spanning_subdigraph additionally requires V(H) = V(D)");
    kani::cover!(asub && !vsub, "arcs contained but a vertex of H is missing from D");
    kani::cover!(vsub && asub && !veq, "a proper, non-spanning subdigraph");
}

/// The same relations on real AdjacencyMap values whose vertex sets are
/// subsets of {0, 2, 3} (isolated vertices included).
fn relations_map() {
    const IDS: [usize; 3] = [0, 2, 3];

    cx::set_vcap(8);

    let h = GV::<3>::any();
    let d = GV::<3>::any();

    kani::assume(h.v[0] && d.v[0]);

    let mk = |g: &GV<3>| {
        let mut m = AdjacencyMap::empty(1);

        for u in 1..3 {
            if g.v[u] {
                // admit the vertex, leaving it isolated
                m.add_arc(0, IDS[u]);
                let _ = m.remove_arc(0, IDS[u]);
            }
        }

        for u in 0..3 {
            for v in 0..3 {
                if g.a[u][v] {
                    m.add_arc(IDS[u], IDS[v]);
                }
            }
        }

        m
    };
    let hm = mk(&h);
    let dm = mk(&d);
    let mut vsub = true;
    let mut veq = true;
    let mut asub = true;

    for u in 0..3 {
        if h.v[u] && !d.v[u] {
            vsub = false;
        }

        if h.v[u] != d.v[u] {
            veq = false;
        }

        for v in 0..3 {
            if h.a[u][v] && !d.a[u][v] {
                asub = false;
            }
        }
    }

    assert!(hm.is_subdigraph(&dm) == (vsub && asub), "is_subdigraph iff V(H) within V(D) and A(H) within A(D)");
    assert!(dm.is_superdigraph(&hm) == (vsub && asub), "is_superdigraph is the converse relation");
    assert!(hm.is_spanning_subdigraph(&dm) == (veq && asub), "is_spanning_subdigraph additionally requires V(H) = V(D)");
    kani::cover!(asub && !vsub, "arcs contained but a vertex of H is missing from D");
    core::mem::forget(hm);
    core::mem::forget(dm);
}

/// Inherent predicates of a real AdjacencyMap whose vertex set is {0, 2, 3}.
fn noncontiguous_map() {
    const IDS: [usize; 3] = [0, 2, 3];

    cx::set_vcap(5);
    cx::set_parallelism(1);

    let g = G::<3>::any();
    let want = defs(&g);
    let mut d = AdjacencyMap::empty(1);

    d.add_arc(0, 2);
    d.add_arc(2, 3);
    let _ = d.remove_arc(0, 2);
    let _ = d.remove_arc(2, 3);

    for u in 0..3 {
        for v in 0..3 {
            if g.a[u][v] {
                d.add_arc(IDS[u], IDS[v]);
            }
        }
    }

    assert!(d.is_complete() == want.complete, "is_complete iff every ordered pair of distinct vertices is an arc");
    assert!(d.is_semicomplete() == want.semicomplete, "is_semicomplete iff every unordered pair is joined by at least one arc");
    assert!(d.is_tournament() == want.tournament, "is_tournament iff every unordered pair is joined by exactly one arc");
    assert!(d.is_regular() == want.regular, "is_regular iff all in- and outdegrees equal one constant");
    assert!(d.is_symmetric() == want.symmetric, "is_symmetric iff every arc has its reverse");
    assert!(d.is_oriented() == want.oriented, "is_oriented iff no arc has its reverse");
    assert!(d.is_simple(), "is_simple is true for every digraph built through the API");
    kani::cover!(want.tournament, "a tournament on {0, 2, 3}");
    core::mem::forget(d);
}

// AdjacencyMap with vertex set {0, 2, 3} (ids are not positions): every inherent predicate.
// @verif prop=C12 tier=quick fl=f2 feat=map4 role=noncontiguous/adjacency-map t=1500 mem=14
#[cfg_attr(kani, kani::proof)]
#[cfg_attr(kani, kani::unwind(8))]
pub fn c12_noncontiguous_map() {
    noncontiguous_map();
}

// @verif prop=C12 tier=quick fl=f0 role=inherent/matrix t=1200 mem=12
#[cfg_attr(kani, kani::proof)]
#[cfg_attr(kani, kani::unwind(16))]
pub fn c12_inherent_matrix_n4() {
    inherent::<AdjacencyMatrix, 4>(1);
}

// @verif prop=C12 tier=quick fl=f1 role=inherent/edge-list t=1200 mem=12
#[cfg_attr(kani, kani::proof)]
#[cfg_attr(kani, kani::unwind(8))]
pub fn c12_inherent_edge_list_n3() {
    inherent::<EdgeList, 3>(1);
}

// AdjacencyList incl. the threaded is_semicomplete with 2 worker threads.
// @verif prop=C12 tier=quick fl=f2 role=inherent/adjacency-list t=1500 mem=14 par=2
#[cfg_attr(kani, kani::proof)]
#[cfg_attr(kani, kani::unwind(8))]
pub fn c12_inherent_adjacency_list_n3_t2() {
    inherent::<AdjacencyList, 3>(cx::EXACT + 2);
}

// ... with the thread count symbolic in 1..=4.
// @verif prop=C12 tier=exp fl=f2 role=inherent/adjacency-list t=3600 mem=30
#[cfg_attr(kani, kani::proof)]
#[cfg_attr(kani, kani::unwind(8))]
pub fn c12_inherent_adjacency_list_n3_p4() {
    inherent::<AdjacencyList, 3>(4);
}

// @verif prop=C12 tier=quick fl=f2 feat=map4 role=inherent/adjacency-map t=1500 mem=14
#[cfg_attr(kani, kani::proof)]
#[cfg_attr(kani, kani::unwind(10))]
pub fn c12_inherent_adjacency_map_n3() {
    inherent::<AdjacencyMap, 3>(1);
}

// @verif prop=C12 tier=quick fl=f1 feat=map4 role=inherent/weighted t=1200 mem=12
#[cfg_attr(kani, kani::proof)]
#[cfg_attr(kani, kani::unwind(10))]
pub fn c12_weighted_n3() {
    weighted::<3>();
}

// Blanket sub/super/spanning over all pairs of digraphs with vertex sets within 0..3.
// @verif prop=C12 tier=quick fl=f1 role=relations/array t=1200 mem=12
#[cfg_attr(kani, kani::proof)]
#[cfg_attr(kani, kani::unwind(8))]
pub fn c12_relations_n3() {
    relations::<3>();
}

// @verif prop=C12 tier=exp fl=f1 feat=map4 role=relations/adjacency-map t=3600 mem=30
#[cfg_attr(kani, kani::proof)]
#[cfg_attr(kani, kani::unwind(10))]
pub fn c12_relations_map() {
    relations_map();
}

// @verif prop=C12 tier=thorough fl=f1 role=inherent/edge-list t=3600 mem=24
#[cfg_attr(kani, kani::proof)]
#[cfg_attr(kani, kani::unwind(16))]
pub fn c12_inherent_edge_list_n4() {
    inherent::<EdgeList, 4>(1);
}

// @verif prop=C12 tier=exp fl=f2 role=inherent/adjacency-list t=3600 mem=24
#[cfg_attr(kani, kani::proof)]
#[cfg_attr(kani, kani::unwind(8))]
pub fn c12_inherent_adjacency_list_n4_p6() {
    inherent::<AdjacencyList, 4>(6);
}
