//! C13 — the safe API is memory-safe for every argument (memory-safety
//! facets; the leak facet is not decidable with this technique, see
//! DESIGN.md).
//!
//! Flavour f1 keeps the real `Vec` (exact allocation bounds), so CBMC's
//! pointer checks see an out-of-bounds `ptr.add(id)`. A failing pointer check
//! is replayed natively and, if the native run does not crash, under Miri.

use {
    crate::{
        cx,
        nd,
        oracle::{
            G,
            WG,
        },
        vvec,
    },
    core::iter::once,
    graaf::{
        AddArc,
        AdjacencyMap,
        AdjacencyMatrix,
        BellmanFordMoore,
        Bfs,
        BfsDist,
        BfsPred,
        Converse,
        Dfs,
        DfsDist,
        DfsPred,
        Dijkstra,
        DijkstraDist,
        DijkstraPred,
        DistanceMatrix,
        Empty,
        HasArc,
        IsSemicomplete,
        IsTournament,
        PredecessorTree,
        RemoveArc,
    },
};

#[cfg(not(kani))]
use crate::kani;

fn weighted3() -> WG<3, usize> {
    let mut g = WG::<3, usize>::empty();

    for u in 0..3 {
        for v in 0..3 {
            if u != v && nd::bool() {
                g.w[u][v] = Some(nd::below(4));
            }
        }
    }

    g
}

/// A traversal constructed with an UNCONSTRAINED source id and advanced once:
/// every execution must end in a return or a panic.
fn traversal(which: usize) {
    cx::set_vcap(4);

    let s = nd::usize();

    kani::cover!(s >= 3, "WITNESS: an out-of-range source id");

    match which {
        0 => {
            let g = G::<3>::any();
            let mut it = Bfs::new(&g, once(s));
            let _ = it.next();
            core::mem::forget(it);
        }
        1 => {
            let g = G::<3>::any();
            let mut it = BfsDist::new(&g, once(s));
            let _ = it.next();
            core::mem::forget(it);
        }
        2 => {
            let g = G::<3>::any();
            let mut it = BfsPred::new(&g, once(s));
            let _ = it.next();
            core::mem::forget(it);
        }
        3 => {
            let g = G::<3>::any();
            let mut it = Dfs::new(&g, once(s));
            let _ = it.next();
            core::mem::forget(it);
        }
        4 => {
            let g = G::<3>::any();
            let mut it = DfsDist::new(&g, once(s));
            let _ = it.next();
            core::mem::forget(it);
        }
        5 => {
            let g = G::<3>::any();
            let mut it = DfsPred::new(&g, once(s));
            let _ = it.next();
            core::mem::forget(it);
        }
        6 => {
            let g = weighted3();
            let mut it = Dijkstra::new(&g, once(s));
            let _ = it.next();
            core::mem::forget(it);
        }
        7 => {
            let g = weighted3();
            let mut it = DijkstraDist::new(&g, once(s));
            let _ = it.next();
            core::mem::forget(it);
        }
        _ => {
            let g = weighted3();
            let mut it = DijkstraPred::new(&g, once(s));
            let _ = it.next();
            core::mem::forget(it);
        }
    }
}

/// A user-built PredecessorTree with UNCONSTRAINED entries.
fn pred_tree_unconstrained() {
    cx::set_vcap(4);

    let mut tree = PredecessorTree::new(3);

    for i in 0..3 {
        tree[i] = if nd::bool() { Some(nd::usize()) } else { None };
    }

    let s = nd::below(3);
    let t = nd::usize();

    kani::cover!(matches!(tree[s], Some(x) if x >= 3) && t != s, "WITNESS: an out-of-range predecessor entry on the chain");

    let r = tree.search(s, t);

    kani::cover!(r.is_none(), "a search that ends without a hit");
    core::mem::forget(r);
    core::mem::forget(tree);
}

/// AdjacencyMatrix::empty for an UNCONSTRAINED order followed by one valid
/// mutation and query.
fn matrix_any_order() {
    let order = nd::usize();

    kani::assume(order >= 2);
    kani::cover!(order == 1 << 32, "WITNESS: an order whose square wraps to 0");

    let mut d = AdjacencyMatrix::empty(order);

    d.add_arc(0, 1);

    assert!(d.has_arc(0, 1), "the arc just added is present");

    let _ = d.remove_arc(1, 0);

    core::mem::forget(d);
}

/// DistanceMatrix::new for an unconstrained order: `checked_mul` must turn
/// an overflow into the documented panic, never into a short allocation.
fn distance_matrix_any_order() {
    let order = nd::usize();

    kani::assume(order >= 1 << 32);

    let m = DistanceMatrix::<usize>::new(order, 0);

    core::mem::forget(m);
    crate::rejected_call_returned();
}

/// BellmanFordMoore::new with an out-of-range source must panic (documented),
/// never index.
fn bfm_source_out_of_range() {
    cx::set_vcap(4);

    let g = WG::<3, isize>::empty();
    let s = nd::usize();

    kani::assume(s >= 3);

    let b = BellmanFordMoore::new(&g, s);

    core::mem::forget(b);
    crate::rejected_call_returned();
}

/// AdjacencyMap with vertex ids {0, 2, 3}: the operations that index by id.
fn map_noncontiguous(which: usize) {
    const IDS: [usize; 3] = [0, 2, 3];

    cx::set_vcap(8);

    let g = G::<3>::any();
    let mut d = AdjacencyMap::empty(1);

    d.add_arc(0, 2);
    d.add_arc(2, 3);
    let _ = d.remove_arc(0, 2);
    let _ = d.remove_arc(2, 3);

    for u in 0..3 {
        for v in 0..3 {
            if g.a[u][v] {
                d.add_arc(IDS[u], IDS[v]);
            }
        }
    }

    kani::cover!(g.a[0][2], "WITNESS: an arc into the vertex with the largest id");

    match which {
        0 => core::mem::forget(d.converse()),
        1 => {
            let _ = d.is_semicomplete();
        }
        _ => {
            let _ = d.is_tournament();
        }
    }

    core::mem::forget(d);
}

/// A digraph built from caller-supplied rows (heads unconstrained below 8,
/// self-loops possible) either panics in `from` or is safe to operate on.
fn list_from_rows_then_ops() {
    use crate::cx::BTreeSet;
    use graaf::{
        AdjacencyList,
        DegreeSequence,
        IndegreeSequence,
    };

    cx::set_vcap(8);
    cx::set_parallelism(1);

    let mut rows: [BTreeSet<usize>; 2] = [BTreeSet::new(), BTreeSet::new()];
    let mut bad = false;

    for u in 0..2 {
        for v in 0..8 {
            if nd::bool() {
                let _ = rows[u].insert(v);

                if v == u || v >= 2 {
                    bad = true;
                }
            }
        }
    }

    kani::cover!(bad, "WITNESS: a row with a self-loop or an out-of-range head");

    let d = AdjacencyList::from(rows);

    match nd::below(3) {
        0 => core::mem::forget(d.converse()),
        1 => {
            for x in d.indegree_sequence() {
                assert!(x <= 2, "an indegree is at most the order");
            }
        }
        _ => {
            for x in d.degree_sequence() {
                assert!(x <= 4, "a degree is at most twice the order");
            }
        }
    }

    core::mem::forget(d);
}

macro_rules! trav {
    ($name:ident, $k:expr) => {
        #[cfg_attr(kani, kani::proof)]
        #[cfg_attr(kani, kani::unwind(8))]
        pub fn $name() {
            traversal($k);
        }
    };
}

// Bfs::new + next() with an unconstrained source id on every 3-vertex digraph (real Vec: exact bounds).
// @verif prop=C13 tier=quick fl=f2 role=oob-source/bfs t=900 mem=12 miri=1 allow=panic checks=full
#[cfg_attr(kani, kani::proof)]
#[cfg_attr(kani, kani::unwind(8))]
pub fn c13_source_bfs() {
    traversal(0);
}

// @verif prop=C13 tier=quick fl=f2 role=oob-source/bfs-dist t=900 mem=12 miri=1 allow=panic checks=full
#[cfg_attr(kani, kani::proof)]
#[cfg_attr(kani, kani::unwind(8))]
pub fn c13_source_bfs_dist() {
    traversal(1);
}

// @verif prop=C13 tier=quick fl=f2 role=oob-source/bfs-pred t=900 mem=12 miri=1 allow=panic checks=full
#[cfg_attr(kani, kani::proof)]
#[cfg_attr(kani, kani::unwind(8))]
pub fn c13_source_bfs_pred() {
    traversal(2);
}

// @verif prop=C13 tier=quick fl=f2 role=oob-source/dfs t=900 mem=12 miri=1 allow=panic checks=full
#[cfg_attr(kani, kani::proof)]
#[cfg_attr(kani, kani::unwind(8))]
pub fn c13_source_dfs() {
    traversal(3);
}

// @verif prop=C13 tier=quick fl=f2 role=oob-source/dfs-dist t=900 mem=12 miri=1 allow=panic checks=full
#[cfg_attr(kani, kani::proof)]
#[cfg_attr(kani, kani::unwind(8))]
pub fn c13_source_dfs_dist() {
    traversal(4);
}

// @verif prop=C13 tier=quick fl=f2 role=oob-source/dfs-pred t=900 mem=12 miri=1 allow=panic checks=full
#[cfg_attr(kani, kani::proof)]
#[cfg_attr(kani, kani::unwind(8))]
pub fn c13_source_dfs_pred() {
    traversal(5);
}

// @verif prop=C13 tier=quick fl=f2 role=oob-source/dijkstra t=900 mem=12 miri=1 allow=panic checks=full
#[cfg_attr(kani, kani::proof)]
#[cfg_attr(kani, kani::unwind(8))]
pub fn c13_source_dijkstra() {
    traversal(6);
}

// @verif prop=C13 tier=quick fl=f2 role=oob-source/dijkstra-dist t=900 mem=12 miri=1 allow=panic checks=full
#[cfg_attr(kani, kani::proof)]
#[cfg_attr(kani, kani::unwind(8))]
pub fn c13_source_dijkstra_dist() {
    traversal(7);
}

// @verif prop=C13 tier=quick fl=f2 role=oob-source/dijkstra-pred t=900 mem=12 miri=1 allow=panic checks=full
#[cfg_attr(kani, kani::proof)]
#[cfg_attr(kani, kani::unwind(8))]
pub fn c13_source_dijkstra_pred() {
    traversal(8);
}

// PredecessorTree with unconstrained entries: search must return or panic.
// @verif prop=C13 tier=quick fl=f2 role=oob-entry/predecessor-tree t=900 mem=12 miri=1 allow=panic checks=full
#[cfg_attr(kani, kani::proof)]
#[cfg_attr(kani, kani::unwind(8))]
pub fn c13_pred_tree_unconstrained() {
    pred_tree_unconstrained();
}

// AdjacencyMatrix::empty(any order >= 2) + add_arc + has_arc + remove_arc.
// Kani models the dev profile: a failed overflow check here is a candidate that the release replay decides.
// @verif prop=C13 tier=quick fl=f0 role=order-overflow/matrix t=900 mem=12 miri=1 allow=panic checks=full
#[cfg_attr(kani, kani::proof)]
#[cfg_attr(kani, kani::unwind(8))]
pub fn c13_matrix_any_order() {
    matrix_any_order();
}

// DistanceMatrix::new(order >= 2^32): the checked multiplication must panic.
// @verif prop=C13 tier=quick fl=f0 role=order-overflow/distance-matrix t=900 mem=12 expect=panic checks=full
#[cfg_attr(kani, kani::proof)]
#[cfg_attr(kani, kani::unwind(8))]
pub fn c13_distance_matrix_any_order() {
    distance_matrix_any_order();
}

// BellmanFordMoore::new(s >= order) must panic before indexing.
// @verif prop=C13 tier=quick fl=f1 role=oob-source/bellman-ford t=900 mem=12 expect=panic checks=full
#[cfg_attr(kani, kani::proof)]
#[cfg_attr(kani, kani::unwind(8))]
pub fn c13_bfm_source_out_of_range() {
    bfm_source_out_of_range();
}

// AdjacencyMap {0, 2, 3}: converse indexes a Vec of `order` rows by vertex id.
// @verif prop=C13 tier=quick fl=f1 feat=map4 role=noncontiguous/converse t=1200 mem=12 miri=1 allow=panic checks=full
#[cfg_attr(kani, kani::proof)]
#[cfg_attr(kani, kani::unwind(10))]
pub fn c13_map_noncontiguous_converse() {
    map_noncontiguous(0);
}

// @verif prop=C13 tier=quick fl=f1 feat=map4 role=noncontiguous/is-semicomplete t=1200 mem=12 miri=1 allow=panic checks=full
#[cfg_attr(kani, kani::proof)]
#[cfg_attr(kani, kani::unwind(10))]
pub fn c13_map_noncontiguous_is_semicomplete() {
    map_noncontiguous(1);
}

// @verif prop=C13 tier=quick fl=f1 feat=map4 role=noncontiguous/is-tournament t=1200 mem=12 miri=1 allow=panic checks=full
#[cfg_attr(kani, kani::proof)]
#[cfg_attr(kani, kani::unwind(10))]
pub fn c13_map_noncontiguous_is_tournament() {
    map_noncontiguous(2);
}

// AdjacencyList::from(rows with unconstrained heads) followed by converse / indegree_sequence / degree_sequence.
// @verif prop=C13 tier=quick fl=f1 role=from-rows-then-ops/adjacency-list t=1200 mem=12 miri=1 allow=panic checks=full
#[cfg_attr(kani, kani::proof)]
#[cfg_attr(kani, kani::unwind(10))]
pub fn c13_list_from_rows_then_ops() {
    list_from_rows_then_ops();
}
