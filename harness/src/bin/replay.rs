//! Native replay of a solver counterexample against the real crate.
//!
//! usage: replay <harness> <values-file>
//! values-file: one line per `kani::any()` call, comma-separated bytes
//! (little endian), in call order — exactly Kani's concrete-playback list.
//!
//! exit 0  harness ran to completion (for a should_panic harness: the expected
//!         panic did NOT happen)
//! exit 101 (panic) / signal: the harness failed natively
//! exit 3  an assumption was violated: the values do not describe a run
//! exit 4  usage / unknown harness

#[cfg(kani)]
fn main() {}

#[cfg(not(kani))]
fn main() {
    let args: Vec<String> = std::env::args().collect();

    if args.len() != 3 {
        eprintln!("usage: replay <harness> <values-file>");
        std::process::exit(4);
    }

    let Some(f) = hx::registry::lookup(&args[1]) else {
        eprintln!("unknown harness {}", args[1]);
        std::process::exit(4);
    };

    let text = std::fs::read_to_string(&args[2]).expect("values file");
    let mut vals = Vec::new();

    for line in text.lines() {
        let line = line.trim();

        if line.is_empty() || line.starts_with('#') {
            continue;
        }

        vals.push(
            line.split(',')
                .map(|b| b.trim().parse::<u8>().expect("byte"))
                .collect::<Vec<u8>>(),
        );
    }

    hx::kani::load(vals);
    f();
    eprintln!(
        "REPLAY-COMPLETED exhausted={} remaining={}",
        hx::kani::exhausted(),
        hx::kani::remaining()
    );
}
