//! C06 — Dfs / DfsDist / DfsPred visit exactly the reachable set in a
//! depth-first preorder.

use {
    crate::{
        cx,
        nd,
        oracle::{
            mask,
            G,
            INF,
        },
    },
    graaf::{
        Dfs,
        DfsDist,
        DfsPred,
    },
};

#[cfg(not(kani))]
use crate::kani;

/// Harness-side replay of the search path: `path[0..depth]` is the current
/// root-to-tip path. `step(v)` checks that yielding `v` next is allowed by the
/// definition of a depth-first preorder and returns `(pred, depth_of_v)`.
struct Path<const N: usize> {
    path: [usize; N],
    depth: usize,
    yielded: [bool; N],
}

impl<const N: usize> Path<N> {
    fn new() -> Self {
        Self {
            path: [0; N],
            depth: 0,
            yielded: [false; N],
        }
    }

    fn has_unyielded_out(&self, g: &G<N>, u: usize) -> bool {
        let mut r = false;

        for v in 0..N {
            if g.a[u][v] && !self.yielded[v] {
                r = true;
            }
        }

        r
    }

    fn step(
        &mut self,
        g: &G<N>,
        src: &[bool; N],
        v: usize,
    ) -> (Option<usize>, usize) {
        // Pop path vertices that have no unyielded out-neighbour left.
        for _ in 0..N {
            if self.depth > 0
                && !self.has_unyielded_out(g, self.path[self.depth - 1])
            {
                self.depth -= 1;
            }
        }

        let r = if self.depth == 0 {
            assert!(src[v], "a new root is a source");

            (None, 0)
        } else {
            let tip = self.path[self.depth - 1];

            assert!(
                g.a[tip][v],
                "yielded vertex is an out-neighbour of the deepest path vertex with an unyielded out-neighbour"
            );

            (Some(tip), self.depth)
        };

        self.path[self.depth] = v;
        self.depth += 1;
        self.yielded[v] = true;

        r
    }
}

fn dfs_array<const N: usize>() {
    cx::set_vcap(N * N);

    let g = G::<N>::any();
    let src: [bool; N] = nd::bools();
    let reach = g.reach(&src);
    let mut p = Path::<N>::new();
    let mut it = Dfs::new(&g, mask(src));
    let mut early_none = false;

    for _ in 0..N {
        match it.next() {
            Some(u) => {
                assert!(u < N, "yielded id in range");
                assert!(!p.yielded[u], "vertex yielded once");
                assert!(reach[u], "yielded vertex is reachable");

                let _ = p.step(&g, &src, u);
            }
            None => {
                // Known defect (see known_findings.json): `None` although an
                // unvisited vertex is still on the stack. Runs in which it
                // manifests are cut here; everything above still holds for
                // their prefix, and the last assertion reports them.
                for a in 0..N {
                    for b in 0..N {
                        let i = a * N + b;

                        if i < it.stack.len() && !it.visited[it.stack[i]] {
                            early_none = true;
                        }
                    }
                }

                break;
            }
        }
    }

    if !early_none {
        for u in 0..N {
            assert!(p.yielded[u] == reach[u], "yielded set = reachable set");
        }
    }

    kani::cover!(p.yielded[N - 1] && !src[N - 1] && !early_none, "a non-source is reached");
    kani::cover!(p.depth == N && !early_none, "a search path through all vertices");
    assert!(
        !early_none,
        "next() returns None only when no unvisited vertex is left on the stack"
    );
    core::mem::forget(it);
}

fn dfs_dist_array<const N: usize>() {
    cx::set_vcap(N * N);

    let g = G::<N>::any();
    let src: [bool; N] = nd::bools();
    let reach = g.reach(&src);
    let mut p = Path::<N>::new();
    let mut it = DfsDist::new(&g, mask(src));
    let mut early_none = false;

    for _ in 0..N {
        match it.next() {
            Some((u, d)) => {
                assert!(u < N, "yielded id in range");
                assert!(!p.yielded[u], "vertex yielded once");
                assert!(reach[u], "yielded vertex is reachable");

                let (_, depth) = p.step(&g, &src, u);

                assert!(d == depth, "DfsDist reports the depth in the search tree");
            }
            None => {
                // Known defect (see known_findings.json): `None` although an
                // unvisited vertex is still on the stack. Runs in which it
                // manifests are cut here; everything above still holds for
                // their prefix, and the last assertion reports them.
                for a in 0..N {
                    for b in 0..N {
                        let i = a * N + b;

                        if i < it.stack.len() && !it.visited[it.stack[i].0] {
                            early_none = true;
                        }
                    }
                }

                break;
            }
        }
    }

    if !early_none {
        for u in 0..N {
            assert!(p.yielded[u] == reach[u], "yielded set = reachable set");
        }
    }

    kani::cover!(p.yielded[N - 1] && !src[N - 1] && !early_none, "a non-source is reached");
    kani::cover!(p.depth == N && !early_none, "a search path through all vertices");
    assert!(
        !early_none,
        "next() returns None only when no unvisited vertex is left on the stack"
    );
    core::mem::forget(it);
}

fn dfs_pred_array<const N: usize>() {
    cx::set_vcap(N * N);

    let g = G::<N>::any();
    let src: [bool; N] = nd::bools();
    let reach = g.reach(&src);
    let mut p = Path::<N>::new();
    let mut it = DfsPred::new(&g, mask(src));
    let mut early_none = false;

    for _ in 0..N {
        match it.next() {
            Some((pr, u)) => {
                assert!(u < N, "yielded id in range");
                assert!(!p.yielded[u], "vertex yielded once");
                assert!(reach[u], "yielded vertex is reachable");

                let (pred, _) = p.step(&g, &src, u);

                assert!(pr == pred, "DfsPred reports the search-tree parent");
            }
            None => {
                // Known defect (see known_findings.json): `None` although an
                // unvisited vertex is still on the stack. Runs in which it
                // manifests are cut here; everything above still holds for
                // their prefix, and the last assertion reports them.
                for a in 0..N {
                    for b in 0..N {
                        let i = a * N + b;

                        if i < it.stack.len() && !it.visited[it.stack[i].1] {
                            early_none = true;
                        }
                    }
                }

                break;
            }
        }
    }

    if !early_none {
        for u in 0..N {
            assert!(p.yielded[u] == reach[u], "yielded set = reachable set");
        }
    }

    kani::cover!(p.yielded[N - 1] && !src[N - 1] && !early_none, "a non-source is reached");
    kani::cover!(p.depth == N && !early_none, "a search path through all vertices");
    assert!(
        !early_none,
        "next() returns None only when no unvisited vertex is left on the stack"
    );
    core::mem::forget(it);
}

/// `Dfs` through a real representation (its own `out_neighbors`).
fn dfs_repr<R, const N: usize>()
where
    R: graaf::Empty + graaf::AddArc + graaf::Order + graaf::OutNeighbors,
{
    cx::set_vcap(N * N);
    cx::set_parallelism(1);

    let g = G::<N>::any();
    let src: [bool; N] = nd::bools();
    let reach = g.reach(&src);
    let mut d = R::empty(N);

    for u in 0..N {
        for v in 0..N {
            if g.a[u][v] {
                d.add_arc(u, v);
            }
        }
    }

    let mut p = Path::<N>::new();
    let mut early_none = false;

    {
        let mut it = Dfs::new(&d, mask(src));

        for _ in 0..N {
            match it.next() {
                Some(u) => {
                    assert!(u < N, "yielded id in range");
                    assert!(!p.yielded[u], "vertex yielded once");
                    assert!(reach[u], "yielded vertex is reachable");

                    let _ = p.step(&g, &src, u);
                }
                None => {
                    for a in 0..N {
                        for b in 0..N {
                            let i = a * N + b;

                            if i < it.stack.len() && !it.visited[it.stack[i]] {
                                early_none = true;
                            }
                        }
                    }

                    break;
                }
            }
        }

        core::mem::forget(it);
    }

    if !early_none {
        for u in 0..N {
            assert!(p.yielded[u] == reach[u], "yielded set = reachable set");
        }
    }

    kani::cover!(p.depth == N && !early_none, "a search path through all vertices");
    assert!(
        !early_none,
        "next() returns None only when no unvisited vertex is left on the stack"
    );
    core::mem::forget(d);
}

// Dfs through the real AdjacencyList, every digraph on 3 vertices x every source set.
// @verif prop=C06 tier=thorough fl=f2 role=dfs/array t=1500 mem=16
#[cfg_attr(kani, kani::proof)]
#[cfg_attr(kani, kani::unwind(8))]
pub fn c06_dfs_adjacency_list_n3() {
    dfs_repr::<graaf::AdjacencyList, 3>();
}

// Dfs over every digraph on 3 vertices x every source set (9 symbolic bits).
// @verif prop=C06 tier=quick fl=f2 role=dfs/array t=900 mem=12
#[cfg_attr(kani, kani::proof)]
#[cfg_attr(kani, kani::unwind(5))]
pub fn c06_dfs_array_n3() {
    dfs_array::<3>();
}

// DfsDist over every digraph on 3 vertices x every source set.
// @verif prop=C06 tier=quick fl=f2 role=dfs-dist/array t=1200 mem=16
#[cfg_attr(kani, kani::proof)]
#[cfg_attr(kani, kani::unwind(5))]
pub fn c06_dfs_dist_array_n3() {
    dfs_dist_array::<3>();
}

// DfsPred over every digraph on 3 vertices x every source set.
// @verif prop=C06 tier=quick fl=f2 role=dfs-pred/array t=1200 mem=20
#[cfg_attr(kani, kani::proof)]
#[cfg_attr(kani, kani::unwind(5))]
pub fn c06_dfs_pred_array_n3() {
    dfs_pred_array::<3>();
}

// Dfs over every digraph on 4 vertices x every source set (16 symbolic bits).
// @verif prop=C06 tier=thorough fl=f2 role=dfs/array t=3600 mem=16
#[cfg_attr(kani, kani::proof)]
#[cfg_attr(kani, kani::unwind(6))]
pub fn c06_dfs_array_n4() {
    dfs_array::<4>();
}

// @verif prop=C06 tier=thorough fl=f2 role=dfs-dist/array t=3600 mem=24
#[cfg_attr(kani, kani::proof)]
#[cfg_attr(kani, kani::unwind(6))]
pub fn c06_dfs_dist_array_n4() {
    dfs_dist_array::<4>();
}

// @verif prop=C06 tier=exp fl=f2 role=dfs-pred/array t=3600 mem=24
#[cfg_attr(kani, kani::proof)]
#[cfg_attr(kani, kani::unwind(6))]
pub fn c06_dfs_pred_array_n4() {
    dfs_pred_array::<4>();
}
