//! C19 — PredecessorTree::search_by follows predecessor links exactly and
//! always terminates.

use {
    crate::{
        cx,
        nd,
        vvec,
    },
    graaf::PredecessorTree,
};

#[cfg(not(kani))]
use crate::kani;

/// Every predecessor vector of length L with entries `None` or `Some(< L)`
/// (cycles and self-references included), every start, every predicate over
/// vertices (bit mask) optionally OR-ed with "has no predecessor".
fn search_by<const L: usize>() {
    cx::set_vcap(L + 1);

    let mut pred = [None::<usize>; L];
    let mut tree = PredecessorTree::new(L);

    for i in 0..L {
        let p = nd::opt_below(L);

        pred[i] = p;
        tree[i] = p;
    }

    let s = nd::below(L);

    let tmask: [bool; L] = nd::bools();
    let root_is_target = nd::bool();
    let is_t = |v: usize, p: Option<usize>| tmask[v] || (root_is_target && p.is_none());

    // reference: follow links with a visited bitmap
    let mut want = [0_usize; L];
    let mut wlen = 0;
    let mut found = false;
    let mut vis = [false; L];
    let mut cur = s;

    for _ in 0..L {
        if !found && !vis[cur] {
            vis[cur] = true;
            want[wlen] = cur;
            wlen += 1;

            if is_t(cur, pred[cur]) {
                found = true;
            } else if let Some(nx) = pred[cur] {
                cur = nx;
            } else {
                // chain ended; make the loop idle
                vis[cur] = true;
            }
        }
    }

    // Termination: the predicate is evaluated once before the loop and once per
    // link step; a terminating search makes at most L + 2 evaluations (each
    // step marks a new vertex or ends). Counting them turns non-termination
    // into an ordinary, replayable assertion failure instead of an unwinding
    // failure.
    let calls = core::cell::Cell::new(0_usize);
    let got = tree.search_by(s, |&v, p| {
        calls.set(calls.get() + 1);

        assert!(calls.get() <= L + 2, "search_by terminates within L + 2 predicate evaluations");

        is_t(v, *p)
    });

    match &got {
        Some(path) => {
            assert!(found, "Some only if a target is reached");
            assert!(path.len() == wlen, "path ends at the first target");

            for i in 0..L {
                if i < wlen {
                    assert!(path[i] == want[i], "path follows the predecessor links from s");
                }
            }
        }
        None => assert!(!found, "None only if no target is reached"),
    }

    kani::cover!(found && wlen == L, "path through all vertices");
    kani::cover!(!found && pred[s] == Some(s), "self-referential start");
    kani::cover!(!found && wlen == L, "cycle through all vertices without target");
    core::mem::forget(got);
    core::mem::forget(tree);
}

fn search_eq<const L: usize>() {
    cx::set_vcap(L + 1);

    let mut tree = PredecessorTree::new(L);

    for i in 0..L {
        let p = nd::opt_below(L);

        tree[i] = p;
    }

    let s = nd::below(L);
    let t = nd::usize();

    let calls = core::cell::Cell::new(0_usize);
    let b = tree.search_by(s, |&v, _| {
        calls.set(calls.get() + 1);

        assert!(calls.get() <= L + 2, "search_by terminates within L + 2 predicate evaluations");

        v == t
    });
    // same code path, same inputs: terminates whenever the call above did
    let a = tree.search(s, t);

    match (&a, &b) {
        (None, None) => {}
        (Some(x), Some(y)) => {
            assert!(x.len() == y.len(), "search(s, t) = search_by(s, v == t)");

            for i in 0..L {
                if i < x.len() {
                    assert!(x[i] == y[i], "search(s, t) = search_by(s, v == t)");
                }
            }
        }
        _ => panic!("search(s, t) = search_by(s, v == t)"),
    }

    kani::cover!(a.is_some() && s != t, "non-trivial hit");
    core::mem::forget(a);
    core::mem::forget(b);
    core::mem::forget(tree);
}

// @verif prop=C19 tier=quick fl=f2 role=search-by t=600 mem=10
#[cfg_attr(kani, kani::proof)]
#[cfg_attr(kani, kani::unwind(8))]
pub fn c19_search_by_l4() {
    search_by::<4>();
}

// @verif prop=C19 tier=quick fl=f2 role=search-eq t=600 mem=10
#[cfg_attr(kani, kani::proof)]
#[cfg_attr(kani, kani::unwind(8))]
pub fn c19_search_eq_l4() {
    search_eq::<4>();
}

// @verif prop=C19 tier=thorough fl=f2 role=search-by t=3600 mem=16
#[cfg_attr(kani, kani::proof)]
#[cfg_attr(kani, kani::unwind(10))]
pub fn c19_search_by_l6() {
    search_by::<6>();
}
