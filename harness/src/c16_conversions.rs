//! C16 — conversions between representations preserve the digraph.

use {
    crate::{
        cx::{
            self,
            BTreeMap,
            BTreeSet,
        },
        nd,
        oracle::G,
    },
    graaf::{
        AddArc,
        AdjacencyList,
        AdjacencyListWeighted,
        AdjacencyMap,
        AdjacencyMatrix,
        ArcWeight,
        Arcs,
        ArcsWeighted,
        EdgeList,
        Empty,
        HasArc,
        Order,
        Size,
        Vertices,
    },
};

#[cfg(not(kani))]
use crate::kani;

pub trait Rep: Empty + AddArc + HasArc + Size + Order + Arcs + Vertices {}

impl Rep for AdjacencyList {}
impl Rep for AdjacencyMap {}
impl Rep for AdjacencyMatrix {}
impl Rep for EdgeList {}

fn build<R: Rep, const N: usize>(g: &G<N>) -> R {
    let mut d = R::empty(N);

    for u in 0..N {
        for v in 0..N {
            if g.a[u][v] {
                d.add_arc(u, v);
            }
        }
    }

    d
}

fn same<R: Rep, const N: usize>(d: &R, g: &G<N>) {
    assert!(d.order() == N, "same order");
    assert!(d.size() == g.size(), "same number of arcs");

    let mut arcs = d.arcs();
    let mut vs = d.vertices();

    for u in 0..N {
        assert!(vs.next() == Some(u), "vertex set 0..order");

        for v in 0..N {
            assert!(d.has_arc(u, v) == g.a[u][v], "same arc set");

            if g.a[u][v] {
                assert!(arcs.next() == Some((u, v)), "arcs() lists the same arcs");
            }
        }
    }

    assert!(arcs.next().is_none(), "arcs() lists nothing else");
    assert!(vs.next().is_none(), "vertex set 0..order");
}

/// A -> B for every digraph of order N.
fn convert<A: Rep, B: Rep + From<A>, const N: usize>() {
    cx::set_vcap(N * N);

    let g = G::<N>::any();
    let a = build::<A, N>(&g);
    let b = B::from(a);

    same::<B, N>(&b, &g);
    kani::cover!(g.size() == N * (N - 1), "the complete digraph");
    core::mem::forget(b);
}

/// A -> B -> A is the identity.
fn round_trip<A: Rep + From<B> + PartialEq + Clone, B: Rep + From<A>, const N: usize>() {
    cx::set_vcap(N * N);

    let g = G::<N>::any();
    let a = build::<A, N>(&g);
    let a0 = a.clone();
    let back = A::from(B::from(a));

    assert!(back == a0, "the round trip is the identity");
    core::mem::forget(back);
    core::mem::forget(a0);
}

fn to_weighted<A: Rep, W, const N: usize>(one: W)
where
    W: Copy + PartialEq,
    AdjacencyListWeighted<W>: From<A>,
{
    cx::set_vcap(N * N);

    let g = G::<N>::any();
    let a = build::<A, N>(&g);
    let b = AdjacencyListWeighted::<W>::from(a);

    assert!(b.order() == N, "same order");

    for u in 0..N {
        for v in 0..N {
            match b.arc_weight(u, v) {
                Some(w) => assert!(g.a[u][v] && *w == one, "same arcs, every weight 1"),
                None => assert!(!g.a[u][v], "same arcs, every weight 1"),
            }
        }
    }

    assert!(b.size() == g.size(), "same number of arcs");
    core::mem::forget(b);
}

/// Rows over ids 0..=N (N = one out-of-range head) with self-loops possible.
fn any_rows<const N: usize, const X: usize>() -> [[bool; X]; N] {
    let mut rows = [[false; X]; N];

    for u in 0..N {
        for v in 0..X {
            rows[u][v] = nd::bool();
        }
    }

    rows
}

fn rows_valid<const N: usize, const X: usize>(rows: &[[bool; X]; N]) -> bool {
    let mut ok = true;

    for u in 0..N {
        for v in 0..X {
            if rows[u][v] && (v == u || v >= N) {
                ok = false;
            }
        }
    }

    ok
}

fn set_of<const X: usize>(row: &[bool; X]) -> BTreeSet<usize> {
    let mut s = BTreeSet::new();

    for v in 0..X {
        if row[v] {
            let _ = s.insert(v);
        }
    }

    s
}

/// `which`: 0 = AdjacencyList, 1 = AdjacencyMap. `valid`: assume the rows are
/// valid and check the result, or assume they are invalid (must panic).
fn from_rows<const N: usize, const X: usize>(which: usize, valid: bool) {
    cx::set_vcap(N + 1);

    let rows = any_rows::<N, X>();

    kani::assume(rows_valid(&rows) == valid);

    let mut sets: [BTreeSet<usize>; N] = core::array::from_fn(|_| BTreeSet::new());

    for u in 0..N {
        sets[u] = set_of(&rows[u]);
    }

    if which == 0 {
        let d = AdjacencyList::from(sets);

        if !valid {
            crate::rejected_call_returned();
        }

        assert!(d.order() == N, "one vertex per row");

        for u in 0..N {
            for v in 0..X {
                assert!(d.has_arc(u, v) == rows[u][v], "exactly the given rows");
            }
        }

        core::mem::forget(d);
    } else {
        let d = AdjacencyMap::from(sets);

        if !valid {
            crate::rejected_call_returned();
        }

        assert!(d.order() == N, "one vertex per row");

        for u in 0..N {
            for v in 0..X {
                assert!(d.has_arc(u, v) == rows[u][v], "exactly the given rows");
            }
        }

        core::mem::forget(d);
    }
}

fn from_weight_rows<const N: usize, const X: usize>(valid: bool) {
    cx::set_vcap(N + 1);

    let rows = any_rows::<N, X>();

    kani::assume(rows_valid(&rows) == valid);

    let mut maps: [BTreeMap<usize, usize>; N] = core::array::from_fn(|_| BTreeMap::new());
    let mut w = [[0_usize; X]; N];

    for u in 0..N {
        for v in 0..X {
            if rows[u][v] {
                w[u][v] = nd::usize();

                let _ = maps[u].insert(v, w[u][v]);
            }
        }
    }

    let d = AdjacencyListWeighted::<usize>::from(maps);

    if !valid {
        crate::rejected_call_returned();
    }

    assert!(d.order() == N, "one vertex per row");

    for u in 0..N {
        for v in 0..X {
            assert!(d.arc_weight(u, v).copied() == if rows[u][v] { Some(w[u][v]) } else { None }, "exactly the given weight maps");
        }
    }

    core::mem::forget(d);
}

/// Iterator of up to K arcs with ids < X (duplicates possible).
struct ArcIter<const K: usize> {
    arcs: [(usize, usize); K],
    k: usize,
    i: usize,
}

impl<const K: usize> Iterator for ArcIter<K> {
    type Item = (usize, usize);

    fn next(&mut self) -> Option<(usize, usize)> {
        if self.i < self.k && self.i < K {
            let a = self.arcs[self.i];

            self.i += 1;

            Some(a)
        } else {
            None
        }
    }
}

fn any_arc_iter<const K: usize>(x: usize, kmin: usize) -> ArcIter<K> {
    let k = nd::below(K + 1);

    kani::assume(k >= kmin);

    let mut arcs = [(0, 0); K];

    for i in 0..K {
        arcs[i] = (nd::below(x), nd::below(x));
    }

    ArcIter { arcs, k, i: 0 }
}

/// `which`: 0 = AdjacencyMatrix, 1 = EdgeList.
fn from_arcs<const K: usize, const X: usize>(which: usize) {
    cx::set_vcap(K + 1);

    let it = any_arc_iter::<K>(X, if which == 0 { 1 } else { 0 });
    let mut m = [[false; X]; X];
    let mut maxid = 0;
    let mut dup = false;

    for i in 0..K {
        if i < it.k {
            let (u, v) = it.arcs[i];

            kani::assume(u != v);

            if m[u][v] {
                dup = true;
            }

            m[u][v] = true;
            maxid = maxid.max(u).max(v);
        }
    }

    let k = it.k;

    if which == 0 {
        let d = AdjacencyMatrix::from(it);

        check_arcs::<AdjacencyMatrix, X>(&d, maxid + 1, &m);
        core::mem::forget(d);
    } else {
        let d = EdgeList::from(it);

        check_arcs::<EdgeList, X>(&d, maxid + 1, &m);
        core::mem::forget(d);
    }

    kani::cover!(dup, "a duplicate arc in the input");
    kani::cover!(k == K && maxid == X - 1, "the largest id appears");
}

fn check_arcs<R: Rep, const X: usize>(d: &R, order: usize, m: &[[bool; X]; X]) {
    assert!(d.order() == order, "order = largest id + 1");

    let mut n = 0;
    let mut arcs = d.arcs();

    for u in 0..X {
        for v in 0..X {
            assert!(d.has_arc(u, v) == m[u][v], "exactly the given arcs");

            if m[u][v] {
                n += 1;

                assert!(arcs.next() == Some((u, v)), "arcs() lists the given arcs, duplicates collapsed");
            }
        }
    }

    assert!(arcs.next().is_none(), "arcs() lists nothing else");
    assert!(d.size() == n, "duplicates collapsed");
}

/// An arc iterator containing a self-loop must panic; so must an empty one for
/// AdjacencyMatrix (documented).
fn from_arcs_rejects<const K: usize, const X: usize>(which: usize) {
    cx::set_vcap(K + 1);

    let it = any_arc_iter::<K>(X, 0);
    let mut selfloop = false;

    for i in 0..K {
        if i < it.k && it.arcs[i].0 == it.arcs[i].1 {
            selfloop = true;
        }
    }

    if which == 0 {
        kani::assume(selfloop || it.k == 0);

        let d = AdjacencyMatrix::from(it);

        core::mem::forget(d);
    } else {
        kani::assume(selfloop);

        let d = EdgeList::from(it);

        core::mem::forget(d);
    }

    crate::rejected_call_returned();
}

macro_rules! conv {
    ($name:ident, $a:ty, $b:ty, $fl:ident) => {
        #[cfg_attr(kani, kani::proof)]
        #[cfg_attr(kani, kani::unwind(10))]
        pub fn $name() {
            convert::<$a, $b, 3>();
        }
    };
}

// @verif prop=C16 tier=thorough fl=f1 feat=map4 role=convert/list-to-map t=3600 mem=16
#[cfg_attr(kani, kani::proof)]
#[cfg_attr(kani, kani::unwind(10))]
pub fn c16_list_to_map_n3() {
    convert::<AdjacencyList, AdjacencyMap, 3>();
}

// @verif prop=C16 tier=quick fl=f1 role=convert/list-to-matrix t=1200 mem=12
#[cfg_attr(kani, kani::proof)]
#[cfg_attr(kani, kani::unwind(8))]
pub fn c16_list_to_matrix_n3() {
    convert::<AdjacencyList, AdjacencyMatrix, 3>();
}

// @verif prop=C16 tier=quick fl=f1 role=convert/list-to-edge-list t=1200 mem=12
#[cfg_attr(kani, kani::proof)]
#[cfg_attr(kani, kani::unwind(8))]
pub fn c16_list_to_edge_list_n3() {
    convert::<AdjacencyList, EdgeList, 3>();
}

// @verif prop=C16 tier=thorough fl=f1 feat=map4 role=convert/map-to-list t=3600 mem=16
#[cfg_attr(kani, kani::proof)]
#[cfg_attr(kani, kani::unwind(10))]
pub fn c16_map_to_list_n3() {
    convert::<AdjacencyMap, AdjacencyList, 3>();
}

// @verif prop=C16 tier=thorough fl=f1 feat=map4 role=convert/map-to-matrix t=3600 mem=16
#[cfg_attr(kani, kani::proof)]
#[cfg_attr(kani, kani::unwind(10))]
pub fn c16_map_to_matrix_n3() {
    convert::<AdjacencyMap, AdjacencyMatrix, 3>();
}

// @verif prop=C16 tier=thorough fl=f1 feat=map4 role=convert/map-to-edge-list t=3600 mem=16
#[cfg_attr(kani, kani::proof)]
#[cfg_attr(kani, kani::unwind(10))]
pub fn c16_map_to_edge_list_n3() {
    convert::<AdjacencyMap, EdgeList, 3>();
}

// @verif prop=C16 tier=quick fl=f1 role=convert/matrix-to-list t=1200 mem=12
#[cfg_attr(kani, kani::proof)]
#[cfg_attr(kani, kani::unwind(8))]
pub fn c16_matrix_to_list_n3() {
    convert::<AdjacencyMatrix, AdjacencyList, 3>();
}

// @verif prop=C16 tier=thorough fl=f1 feat=map4 role=convert/matrix-to-map t=3600 mem=16
#[cfg_attr(kani, kani::proof)]
#[cfg_attr(kani, kani::unwind(10))]
pub fn c16_matrix_to_map_n3() {
    convert::<AdjacencyMatrix, AdjacencyMap, 3>();
}

// @verif prop=C16 tier=quick fl=f1 role=convert/matrix-to-edge-list t=1200 mem=12
#[cfg_attr(kani, kani::proof)]
#[cfg_attr(kani, kani::unwind(8))]
pub fn c16_matrix_to_edge_list_n3() {
    convert::<AdjacencyMatrix, EdgeList, 3>();
}

// @verif prop=C16 tier=quick fl=f1 role=convert/edge-list-to-list t=1200 mem=12
#[cfg_attr(kani, kani::proof)]
#[cfg_attr(kani, kani::unwind(8))]
pub fn c16_edge_list_to_list_n3() {
    convert::<EdgeList, AdjacencyList, 3>();
}

// @verif prop=C16 tier=thorough fl=f1 feat=map4 role=convert/edge-list-to-map t=3600 mem=16
#[cfg_attr(kani, kani::proof)]
#[cfg_attr(kani, kani::unwind(10))]
pub fn c16_edge_list_to_map_n3() {
    convert::<EdgeList, AdjacencyMap, 3>();
}

// @verif prop=C16 tier=quick fl=f1 role=convert/edge-list-to-matrix t=1200 mem=12
#[cfg_attr(kani, kani::proof)]
#[cfg_attr(kani, kani::unwind(8))]
pub fn c16_edge_list_to_matrix_n3() {
    convert::<EdgeList, AdjacencyMatrix, 3>();
}

// @verif prop=C16 tier=quick fl=f1 feat=map4 role=to-weighted/list-usize t=1200 mem=12
#[cfg_attr(kani, kani::proof)]
#[cfg_attr(kani, kani::unwind(10))]
pub fn c16_list_to_weighted_usize_n3() {
    to_weighted::<AdjacencyList, usize, 3>(1);
}

// @verif prop=C16 tier=quick fl=f1 feat=map4 role=to-weighted/matrix-isize t=1200 mem=12
#[cfg_attr(kani, kani::proof)]
#[cfg_attr(kani, kani::unwind(10))]
pub fn c16_matrix_to_weighted_isize_n3() {
    to_weighted::<AdjacencyMatrix, isize, 3>(1);
}

// @verif prop=C16 tier=thorough fl=f1 feat=map4 role=to-weighted/map-isize t=1800 mem=16
#[cfg_attr(kani, kani::proof)]
#[cfg_attr(kani, kani::unwind(10))]
pub fn c16_map_to_weighted_isize_n3() {
    to_weighted::<AdjacencyMap, isize, 3>(1);
}

// @verif prop=C16 tier=thorough fl=f1 feat=map4 role=to-weighted/edge-list-usize t=1800 mem=16
#[cfg_attr(kani, kani::proof)]
#[cfg_attr(kani, kani::unwind(10))]
pub fn c16_edge_list_to_weighted_usize_n3() {
    to_weighted::<EdgeList, usize, 3>(1);
}

// @verif prop=C16 tier=thorough fl=f1 role=round-trip/list-matrix t=1800 mem=16
#[cfg_attr(kani, kani::proof)]
#[cfg_attr(kani, kani::unwind(8))]
pub fn c16_round_trip_list_matrix_n3() {
    round_trip::<AdjacencyList, AdjacencyMatrix, 3>();
}

// Valid rows (heads in range, no self-loop) over ids 0..=3: AdjacencyList::from(rows) has exactly those rows.
// @verif prop=C16 tier=quick fl=f1 role=from-rows/adjacency-list t=1200 mem=12
#[cfg_attr(kani, kani::proof)]
#[cfg_attr(kani, kani::unwind(8))]
pub fn c16_from_rows_list_n3() {
    from_rows::<3, 4>(0, true);
}

// Rows with a self-loop or an out-of-range head: AdjacencyList::from(rows) must panic.
// @verif prop=C16 tier=quick fl=f1 role=from-rows-rejects/adjacency-list t=1200 mem=12 expect=panic
#[cfg_attr(kani, kani::proof)]
#[cfg_attr(kani, kani::unwind(8))]
pub fn c16_from_rows_list_rejects_n3() {
    from_rows::<3, 4>(0, false);
}

// @verif prop=C16 tier=thorough fl=f1 feat=map4 role=from-rows/adjacency-map t=3600 mem=16
#[cfg_attr(kani, kani::proof)]
#[cfg_attr(kani, kani::unwind(10))]
pub fn c16_from_rows_map_n3() {
    from_rows::<3, 4>(1, true);
}

// @verif prop=C16 tier=thorough fl=f1 feat=map4 role=from-rows-rejects/adjacency-map t=3600 mem=16 expect=panic
#[cfg_attr(kani, kani::proof)]
#[cfg_attr(kani, kani::unwind(10))]
pub fn c16_from_rows_map_rejects_n3() {
    from_rows::<3, 4>(1, false);
}

// @verif prop=C16 tier=exp fl=f1 role=from-rows/weighted t=3600 mem=24
#[cfg_attr(kani, kani::proof)]
#[cfg_attr(kani, kani::unwind(10))]
pub fn c16_from_weight_rows_n3() {
    from_weight_rows::<3, 4>(true);
}

// @verif prop=C16 tier=exp fl=f1 role=from-rows-rejects/weighted t=3600 mem=30 expect=panic
#[cfg_attr(kani, kani::proof)]
#[cfg_attr(kani, kani::unwind(10))]
pub fn c16_from_weight_rows_rejects_n3() {
    from_weight_rows::<3, 4>(false);
}

// AdjacencyMatrix::from(1..=3 arcs with ids < 4, duplicates allowed): order = largest id + 1, exactly those arcs.
// @verif prop=C16 tier=exp fl=f0 role=from-arcs/matrix t=3600 mem=30
#[cfg_attr(kani, kani::proof)]
#[cfg_attr(kani, kani::unwind(10))]
pub fn c16_from_arcs_matrix_k3() {
    from_arcs::<3, 4>(0);
}

// EdgeList::from(0..=3 arcs with ids < 4): order = largest id + 1 (1 when empty), exactly those arcs.
// @verif prop=C16 tier=quick fl=f1 role=from-arcs/edge-list t=1200 mem=12
#[cfg_attr(kani, kani::proof)]
#[cfg_attr(kani, kani::unwind(8))]
pub fn c16_from_arcs_edge_list_k3() {
    from_arcs::<3, 4>(1);
}

// @verif prop=C16 tier=quick fl=f0 role=from-arcs-rejects/matrix t=1200 mem=12 expect=panic
#[cfg_attr(kani, kani::proof)]
#[cfg_attr(kani, kani::unwind(10))]
pub fn c16_from_arcs_matrix_rejects_k3() {
    from_arcs_rejects::<3, 4>(0);
}

// @verif prop=C16 tier=quick fl=f1 role=from-arcs-rejects/edge-list t=1200 mem=12 expect=panic
#[cfg_attr(kani, kani::proof)]
#[cfg_attr(kani, kani::unwind(8))]
pub fn c16_from_arcs_edge_list_rejects_k3() {
    from_arcs_rejects::<3, 4>(1);
}

// @verif prop=C16 tier=quick fl=f1 feat=map4 role=convert/list-to-map t=1200 mem=16
#[cfg_attr(kani, kani::proof)]
#[cfg_attr(kani, kani::unwind(8))]
pub fn c16_list_to_map_n2() {
    convert::<AdjacencyList, AdjacencyMap, 2>();
}

// @verif prop=C16 tier=quick fl=f1 feat=map4 role=convert/map-to-list t=1200 mem=16
#[cfg_attr(kani, kani::proof)]
#[cfg_attr(kani, kani::unwind(8))]
pub fn c16_map_to_list_n2() {
    convert::<AdjacencyMap, AdjacencyList, 2>();
}

// @verif prop=C16 tier=quick fl=f1 feat=map4 role=convert/map-to-matrix t=1200 mem=16
#[cfg_attr(kani, kani::proof)]
#[cfg_attr(kani, kani::unwind(8))]
pub fn c16_map_to_matrix_n2() {
    convert::<AdjacencyMap, AdjacencyMatrix, 2>();
}

// @verif prop=C16 tier=quick fl=f1 feat=map4 role=convert/matrix-to-map t=1200 mem=16
#[cfg_attr(kani, kani::proof)]
#[cfg_attr(kani, kani::unwind(8))]
pub fn c16_matrix_to_map_n2() {
    convert::<AdjacencyMatrix, AdjacencyMap, 2>();
}

// @verif prop=C16 tier=quick fl=f1 feat=map4 role=convert/map-to-edge-list t=1200 mem=16
#[cfg_attr(kani, kani::proof)]
#[cfg_attr(kani, kani::unwind(8))]
pub fn c16_map_to_edge_list_n2() {
    convert::<AdjacencyMap, EdgeList, 2>();
}

// @verif prop=C16 tier=quick fl=f1 feat=map4 role=convert/edge-list-to-map t=1200 mem=16
#[cfg_attr(kani, kani::proof)]
#[cfg_attr(kani, kani::unwind(8))]
pub fn c16_edge_list_to_map_n2() {
    convert::<EdgeList, AdjacencyMap, 2>();
}

// @verif prop=C16 tier=quick fl=f1 feat=map4 role=from-rows/adjacency-map t=1200 mem=16
#[cfg_attr(kani, kani::proof)]
#[cfg_attr(kani, kani::unwind(8))]
pub fn c16_from_rows_map_n2() {
    from_rows::<2, 3>(1, true);
}

// @verif prop=C16 tier=quick fl=f1 feat=map4 role=from-rows-rejects/adjacency-map t=1200 mem=16 expect=panic
#[cfg_attr(kani, kani::proof)]
#[cfg_attr(kani, kani::unwind(8))]
pub fn c16_from_rows_map_rejects_n2() {
    from_rows::<2, 3>(1, false);
}

// @verif prop=C16 tier=quick fl=f1 feat=map4 role=from-rows/weighted t=1200 mem=16
#[cfg_attr(kani, kani::proof)]
#[cfg_attr(kani, kani::unwind(8))]
pub fn c16_from_weight_rows_n2() {
    from_weight_rows::<2, 3>(true);
}

// @verif prop=C16 tier=quick fl=f1 feat=map4 role=from-rows-rejects/weighted t=1200 mem=16 expect=panic
#[cfg_attr(kani, kani::proof)]
#[cfg_attr(kani, kani::unwind(8))]
pub fn c16_from_weight_rows_rejects_n2() {
    from_weight_rows::<2, 3>(false);
}

// AdjacencyMatrix::from(1..=3 arcs with ids < 4, duplicates allowed). The order is a symbolic value here, so the
// block vector gets a fixed-size model buffer (feature fixedcap) instead of a symbolic-size allocation.
// @verif prop=C16 tier=thorough fl=f2 feat=fixedcap role=from-arcs/matrix t=3000 mem=16
#[cfg_attr(kani, kani::proof)]
#[cfg_attr(kani, kani::unwind(10))]
pub fn c16_from_arcs_matrix_fixedcap_k3() {
    from_arcs::<3, 4>(0);
}

// ... with 1..=2 arcs (quick).
// @verif prop=C16 tier=thorough fl=f2 feat=fixedcap role=from-arcs/matrix t=3000 mem=20
#[cfg_attr(kani, kani::proof)]
#[cfg_attr(kani, kani::unwind(10))]
pub fn c16_from_arcs_matrix_fixedcap_k2() {
    from_arcs::<2, 4>(0);
}
