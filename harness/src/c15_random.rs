//! C15 — seeded random generators are deterministic and always structurally
//! valid; `next_f64` lies in [0, 1).
//!
//! The PRNG is the real one and the seed is symbolic (all 2^64 seeds in one
//! query). Structural validity does not depend on the drawn values, so the
//! constant multiplications of SplitMix64 stay "dangling" logic for the
//! solver.

use {
    crate::{
        cx,
        nd,
    },
    graaf::{
        gen::prng::Xoshiro256StarStar,
        AdjacencyList,
        AdjacencyMap,
        AdjacencyMatrix,
        EdgeList,
        ErdosRenyi,
        HasArc,
        Order,
        RandomRecursiveTree,
        RandomTournament,
        Size,
    },
};

#[cfg(not(kani))]
use crate::kani;

/// next_f64 in [0, 1) for EVERY 256-bit generator state (hence every seed and
/// every number of previous draws).
fn next_f64_range() {
    let mut r = Xoshiro256StarStar::new(0);

    r.state = [nd::u64(), nd::u64(), nd::u64(), nd::u64()];

    let x = r.next_f64();

    assert!(x >= 0.0, "next_f64 >= 0");
    assert!(x < 1.0, "next_f64 < 1");

    let y = r.next_f64();

    assert!(y >= 0.0 && y < 1.0, "the following draw lies in [0, 1) as well");
    kani::cover!(x > 0.5, "a draw above one half");
    kani::cover!(x == 0.0, "the draw 0.0");
}

pub trait Rep:
    RandomTournament + RandomRecursiveTree + ErdosRenyi + HasArc + Order + Size + PartialEq
{
}

impl Rep for AdjacencyList {}
impl Rep for AdjacencyMap {}
impl Rep for AdjacencyMatrix {}
impl Rep for EdgeList {}

fn threads(cfg: usize) -> usize {
    cx::threads(cfg)
}

pub fn tournament<R: Rep, const N: usize>(cfg: usize) {
    let pmax = cx::threads_max(cfg);

    cx::set_vcap(N.max(pmax) + 1);

    let p = threads(cfg);
    let seed = nd::u64();
    let d = R::random_tournament(N, seed);

    assert!(d.order() == N, "vertex set 0..order");

    for u in 0..N {
        assert!(!d.has_arc(u, u), "no self-loop");

        for v in 0..N {
            if u < v {
                assert!(d.has_arc(u, v) != d.has_arc(v, u), "exactly one arc between every pair of distinct vertices");
            }
        }
    }

    assert!(d.size() == N * (N - 1) / 2, "a tournament has n(n-1)/2 arcs");
    kani::cover!(d.has_arc(N - 1, 0), "an arc from the last to the first vertex");
    kani::cover!(cfg >= cx::EXACT || pmax < 2 || p > 1, "more than one worker");
    core::mem::forget(d);
}

fn tree<R: Rep, const N: usize>() {
    cx::set_vcap(N + 1);
    cx::set_parallelism(1);

    let seed = nd::u64();
    let d = R::random_recursive_tree(N, seed);

    assert!(d.order() == N, "vertex set 0..order");

    for u in 0..N {
        let mut out = 0;

        for v in 0..N {
            if d.has_arc(u, v) {
                out += 1;

                assert!(v < u, "every arc goes to a smaller vertex");
            }
        }

        assert!(out == if u == 0 { 0 } else { 1 }, "vertex 0 has no out-arc, every other vertex exactly one");
    }

    assert!(d.size() == N - 1, "a tree on n vertices has n - 1 arcs");
    kani::cover!(N < 3 || d.has_arc(2, 1), "vertex 2 attached to vertex 1");
    core::mem::forget(d);
}

pub fn erdos_renyi<R: Rep, const N: usize>(cfg: usize) {
    let pmax = cx::threads_max(cfg);

    cx::set_vcap(N.max(pmax) + 1);

    let t = threads(cfg);
    let seed = nd::u64();
    let p = nd::f64();

    kani::assume(p >= 0.0 && p <= 1.0);

    let d = R::erdos_renyi(N, p, seed);

    assert!(d.order() == N, "vertex set 0..order");

    let mut size = 0;

    for u in 0..N {
        assert!(!d.has_arc(u, u), "no self-loop");
        assert!(!d.has_arc(u, N) && !d.has_arc(N, u), "no endpoint outside the vertex set");

        for v in 0..N {
            if d.has_arc(u, v) {
                size += 1;
            }
        }
    }

    assert!(d.size() == size, "size counts exactly the arcs inside the vertex set");

    if p == 0.0 {
        assert!(size == 0, "no arcs when p = 0");
    }

    if p == 1.0 {
        assert!(size == N * (N - 1), "all arcs when p = 1");
    }

    kani::cover!(p > 0.5 && p < 1.0 && size > 0, "the p > 0.5 branch with some arcs");
    kani::cover!(size > 0 && size < N * (N - 1), "a proper subset of the arcs");
    core::mem::forget(d);
}

fn erdos_renyi_rejects<R: Rep, const N: usize>() {
    cx::set_vcap(N + 1);
    cx::set_parallelism(1);

    // representatives of the complement of [0, 1]: just outside on both sides, far outside,
    // the infinities and NaN
    const BAD: [f64; 7] = [-f64::MIN_POSITIVE, 1.0 + f64::EPSILON, -1.0, 2.0, f64::INFINITY, f64::NEG_INFINITY, f64::NAN];

    let p = BAD[nd::below(7)];
    let d = R::erdos_renyi(N, p, nd::below(4) as u64);

    core::mem::forget(d);
    crate::rejected_call_returned();
}

pub fn deterministic<R: Rep, const N: usize>(cfg: usize) {
    let pmax = cx::threads_max(cfg);

    cx::set_vcap(N.max(pmax) + 1);

    let _ = threads(cfg);
    let seed = nd::u64();
    let which = nd::below(3);

    match which {
        0 => {
            let a = R::random_tournament(N, seed);
            let b = R::random_tournament(N, seed);

            assert!(a == b, "equal arguments give equal digraphs");
            core::mem::forget(a);
            core::mem::forget(b);
        }
        1 => {
            let a = R::random_recursive_tree(N, seed);
            let b = R::random_recursive_tree(N, seed);

            assert!(a == b, "equal arguments give equal digraphs");
            core::mem::forget(a);
            core::mem::forget(b);
        }
        _ => {
            let p = nd::f64();

            kani::assume(p >= 0.0 && p <= 1.0);

            let a = R::erdos_renyi(N, p, seed);
            let b = R::erdos_renyi(N, p, seed);

            assert!(a == b, "equal arguments give equal digraphs");
            core::mem::forget(a);
            core::mem::forget(b);
        }
    }
}

// next_f64 in [0, 1) for every 256-bit state (two consecutive draws).
// @verif prop=C15 tier=quick fl=f0 role=prng/next-f64-range t=1200 mem=12
#[cfg_attr(kani, kani::proof)]
#[cfg_attr(kani, kani::unwind(8))]
pub fn c15_next_f64_range() {
    next_f64_range();
}

// random_tournament(3, every seed), AdjacencyMatrix, real std.
// @verif prop=C15 tier=quick fl=f0 role=tournament/matrix t=1500 mem=14
#[cfg_attr(kani, kani::proof)]
#[cfg_attr(kani, kani::unwind(8))]
pub fn c15_tournament_matrix_n3() {
    tournament::<AdjacencyMatrix, 3>(1);
}

// @verif prop=C15 tier=quick fl=f1 role=tournament/edge-list t=1500 mem=14
#[cfg_attr(kani, kani::proof)]
#[cfg_attr(kani, kani::unwind(8))]
pub fn c15_tournament_edge_list_n3() {
    tournament::<EdgeList, 3>(1);
}

// @verif prop=C15 tier=quick fl=f2 role=tournament/adjacency-list t=1500 mem=14
#[cfg_attr(kani, kani::proof)]
#[cfg_attr(kani, kani::unwind(8))]
pub fn c15_tournament_adjacency_list_n3() {
    tournament::<AdjacencyList, 3>(1);
}

// AdjacencyMap::random_tournament(3, every seed) with 2 workers (Mutex-protected rows; sequential thread model).
// @verif prop=C15 tier=quick fl=f2 feat=map4 role=tournament/adjacency-map t=2400 mem=20 par=2
#[cfg_attr(kani, kani::proof)]
#[cfg_attr(kani, kani::unwind(8))]
pub fn c15_tournament_adjacency_map_n3_t2() {
    tournament::<AdjacencyMap, 3>(cx::EXACT + 2);
}

// @verif prop=C15 tier=exp fl=f2 feat=map4 role=tournament/adjacency-map t=3600 mem=30
#[cfg_attr(kani, kani::proof)]
#[cfg_attr(kani, kani::unwind(8))]
pub fn c15_tournament_adjacency_map_n3_p4() {
    tournament::<AdjacencyMap, 3>(4);
}

// @verif prop=C15 tier=quick fl=f0 role=tree/matrix t=1500 mem=14
#[cfg_attr(kani, kani::proof)]
#[cfg_attr(kani, kani::unwind(8))]
pub fn c15_tree_matrix_n3() {
    tree::<AdjacencyMatrix, 3>();
}

// @verif prop=C15 tier=quick fl=f1 role=tree/edge-list t=1500 mem=14
#[cfg_attr(kani, kani::proof)]
#[cfg_attr(kani, kani::unwind(8))]
pub fn c15_tree_edge_list_n3() {
    tree::<EdgeList, 3>();
}

// @verif prop=C15 tier=thorough fl=f2 role=tree/adjacency-list t=1800 mem=16
#[cfg_attr(kani, kani::proof)]
#[cfg_attr(kani, kani::unwind(8))]
pub fn c15_tree_adjacency_list_n3() {
    tree::<AdjacencyList, 3>();
}

// @verif prop=C15 tier=thorough fl=f1 feat=map4 role=tree/adjacency-map t=1800 mem=16
#[cfg_attr(kani, kani::proof)]
#[cfg_attr(kani, kani::unwind(10))]
pub fn c15_tree_adjacency_map_n3() {
    tree::<AdjacencyMap, 3>();
}

// erdos_renyi(3, every p in [0, 1], every seed), AdjacencyMatrix.
// @verif prop=C15 tier=quick fl=f0 role=erdos-renyi/matrix t=1800 mem=16
#[cfg_attr(kani, kani::proof)]
#[cfg_attr(kani, kani::unwind(8))]
pub fn c15_erdos_renyi_matrix_n3() {
    erdos_renyi::<AdjacencyMatrix, 3>(1);
}

// @verif prop=C15 tier=exp fl=f1 role=erdos-renyi/edge-list t=3600 mem=30
#[cfg_attr(kani, kani::proof)]
#[cfg_attr(kani, kani::unwind(8))]
pub fn c15_erdos_renyi_edge_list_n3() {
    erdos_renyi::<EdgeList, 3>(1);
}

// AdjacencyMap::erdos_renyi (threaded, complement for p > 0.5) with 2 workers.
// @verif prop=C15 tier=quick fl=f2 feat=map4 role=erdos-renyi/adjacency-map t=2400 mem=20 par=2
#[cfg_attr(kani, kani::proof)]
#[cfg_attr(kani, kani::unwind(8))]
pub fn c15_erdos_renyi_adjacency_map_n3_t2() {
    erdos_renyi::<AdjacencyMap, 3>(cx::EXACT + 2);
}

// @verif prop=C15 tier=exp fl=f2 feat=map4 role=erdos-renyi/adjacency-map t=3600 mem=30
#[cfg_attr(kani, kani::proof)]
#[cfg_attr(kani, kani::unwind(8))]
pub fn c15_erdos_renyi_adjacency_map_n3_p4() {
    erdos_renyi::<AdjacencyMap, 3>(4);
}

// @verif prop=C15 tier=thorough fl=f2 role=erdos-renyi/adjacency-list t=2400 mem=16
#[cfg_attr(kani, kani::proof)]
#[cfg_attr(kani, kani::unwind(8))]
pub fn c15_erdos_renyi_adjacency_list_n3() {
    erdos_renyi::<AdjacencyList, 3>(1);
}

// p outside [0, 1] (NaN included) must panic.
// @verif prop=C15 tier=quick fl=f0 role=erdos-renyi-rejects/matrix t=1200 mem=12 expect=panic
#[cfg_attr(kani, kani::proof)]
#[cfg_attr(kani, kani::unwind(8))]
pub fn c15_erdos_renyi_rejects_matrix() {
    erdos_renyi_rejects::<AdjacencyMatrix, 3>();
}

// @verif prop=C15 tier=exp fl=f1 role=erdos-renyi-rejects/edge-list t=3600 mem=30 expect=panic
#[cfg_attr(kani, kani::proof)]
#[cfg_attr(kani, kani::unwind(8))]
pub fn c15_erdos_renyi_rejects_edge_list() {
    erdos_renyi_rejects::<EdgeList, 3>();
}

// @verif prop=C15 tier=quick fl=f2 feat=map4 role=erdos-renyi-rejects/adjacency-map t=1200 mem=12 expect=panic
#[cfg_attr(kani, kani::proof)]
#[cfg_attr(kani, kani::unwind(10))]
pub fn c15_erdos_renyi_rejects_adjacency_map() {
    erdos_renyi_rejects::<AdjacencyMap, 3>();
}

/// Determinism of one generator (`which`: 0 tournament, 1 tree, 2 erdos_renyi with p = 1/2).
fn deterministic_one<R: Rep, const N: usize>(which: usize) {
    cx::set_vcap(N + 1);
    cx::set_parallelism(1);

    let seed = nd::u64();

    match which {
        0 => {
            let a = R::random_tournament(N, seed);
            let b = R::random_tournament(N, seed);

            assert!(a == b, "equal arguments give equal digraphs");
            core::mem::forget(a);
            core::mem::forget(b);
        }
        1 => {
            let a = R::random_recursive_tree(N, seed);
            let b = R::random_recursive_tree(N, seed);

            assert!(a == b, "equal arguments give equal digraphs");
            core::mem::forget(a);
            core::mem::forget(b);
        }
        _ => {
            let a = R::erdos_renyi(N, 0.5, seed);
            let b = R::erdos_renyi(N, 0.5, seed);

            assert!(a == b, "equal arguments give equal digraphs");
            core::mem::forget(a);
            core::mem::forget(b);
        }
    }
}

// Determinism: random_tournament(3, seed) twice, every seed, AdjacencyMatrix.
// @verif prop=C15 tier=exp fl=f0 role=deterministic/tournament t=1200 mem=14
#[cfg_attr(kani, kani::proof)]
#[cfg_attr(kani, kani::unwind(8))]
pub fn c15_deterministic_tournament_matrix_n3() {
    deterministic_one::<AdjacencyMatrix, 3>(0);
}

// Determinism: erdos_renyi(3, 0.5, seed) twice, every seed, AdjacencyMatrix.
// @verif prop=C15 tier=exp fl=f0 role=deterministic/erdos-renyi t=1200 mem=14
#[cfg_attr(kani, kani::proof)]
#[cfg_attr(kani, kani::unwind(8))]
pub fn c15_deterministic_erdos_renyi_matrix_n3() {
    deterministic_one::<AdjacencyMatrix, 3>(2);
}

// Determinism: two calls with equal (symbolic) arguments, AdjacencyMatrix.
// @verif prop=C15 tier=exp fl=f0 role=deterministic/matrix t=3600 mem=24
#[cfg_attr(kani, kani::proof)]
#[cfg_attr(kani, kani::unwind(8))]
pub fn c15_deterministic_matrix_n3() {
    deterministic::<AdjacencyMatrix, 3>(1);
}

// Determinism of the threaded AdjacencyMap generators within one configuration (p symbolic, equal in both calls).
// @verif prop=C15 tier=exp fl=f2 feat=map4 role=deterministic/adjacency-map t=3600 mem=24
#[cfg_attr(kani, kani::proof)]
#[cfg_attr(kani, kani::unwind(10))]
pub fn c15_deterministic_adjacency_map_n3_p4() {
    deterministic::<AdjacencyMap, 3>(4);
}
