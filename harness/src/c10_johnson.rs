//! C10 — Johnson75 enumerates every elementary circuit exactly once.
//!
//! Needs the real `AdjacencyMap` (FilterVertices), Tarjan inside, and two
//! recursive procedures: the most expensive query of the whole framework.

use {
    crate::{
        cx,
        nd,
        oracle::G,
    },
    graaf::{
        AddArc,
        AdjacencyMap,
        Empty,
        Johnson75,
    },
};

#[cfg(not(kani))]
use crate::kani;

/// All candidate elementary circuits on 3 vertices, smallest vertex first.
const C3: [(usize, [usize; 3]); 5] = [
    (2, [0, 1, 0]),
    (2, [0, 2, 0]),
    (2, [1, 2, 0]),
    (3, [0, 1, 2]),
    (3, [0, 2, 1]),
];

fn johnson_n3() {
    const N: usize = 3;

    cx::set_vcap(6);

    let g = G::<N>::any();
    let mut d = AdjacencyMap::empty(N);

    for u in 0..N {
        for v in 0..N {
            if g.a[u][v] {
                d.add_arc(u, v);
            }
        }
    }

    let mut j = Johnson75::new(&d);
    let circuits = j.circuits();
    let mut expected = 0;

    for k in 0..5 {
        let (len, c) = C3[k];
        let mut exists = true;

        for i in 0..3 {
            if i < len {
                let a = c[i];
                let b = if i + 1 < len { c[i + 1] } else { c[0] };

                if !g.a[a][b] {
                    exists = false;
                }
            }
        }

        let mut count = 0;

        for r in 0..5 {
            if r < circuits.len() && circuits[r].len() == len {
                let mut same = true;

                for i in 0..3 {
                    if i < len && circuits[r][i] != c[i] {
                        same = false;
                    }
                }

                if same {
                    count += 1;
                }
            }
        }

        if exists {
            expected += 1;

            assert!(count == 1, "every elementary circuit is returned exactly once, smallest vertex first");
        } else {
            assert!(count == 0, "nothing that is not an elementary circuit is returned");
        }
    }

    assert!(circuits.len() == expected, "nothing else is returned");
    kani::cover!(expected == 5, "the complete digraph: all five circuits");
    core::mem::forget(circuits);
    core::mem::forget(j);
    core::mem::forget(d);
}

// Johnson75 over every digraph on 3 vertices (AdjacencyMap + Tarjan inside; recursion bounded at depth 4).
// @verif prop=C10 tier=exp fl=f2 feat=map4 role=circuits/n3 t=3600 mem=30 rec=::connect:4;::circuit:4;::unblock:4
#[cfg_attr(kani, kani::proof)]
#[cfg_attr(kani, kani::unwind(7))]
pub fn c10_johnson_n3() {
    johnson_n3();
}
