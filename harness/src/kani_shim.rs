//! Native stand-in for the `kani` crate (compiled only when *not* under Kani):
//! `any()` pops the next concrete value of a solver counterexample, so the same
//! harness source replays natively against the real crate — dev profile,
//! release profile or Miri — without Kani's runtime.

use std::{
    cell::RefCell,
    collections::VecDeque,
};

thread_local! {
    static VALS: RefCell<VecDeque<Vec<u8>>> = const { RefCell::new(VecDeque::new()) };
    static EXHAUSTED: RefCell<usize> = const { RefCell::new(0) };
}

pub fn load(vals: Vec<Vec<u8>>) {
    VALS.with(|v| *v.borrow_mut() = vals.into());
}

#[must_use]
pub fn exhausted() -> usize {
    EXHAUSTED.with(|e| *e.borrow())
}

#[must_use]
pub fn remaining() -> usize {
    VALS.with(|v| v.borrow().len())
}

fn pop(n: usize) -> [u8; 8] {
    let mut out = [0_u8; 8];

    match VALS.with(|v| v.borrow_mut().pop_front()) {
        Some(bytes) => {
            for (i, b) in bytes.iter().take(n.min(8)).enumerate() {
                out[i] = *b;
            }
        }
        None => EXHAUSTED.with(|e| *e.borrow_mut() += 1),
    }

    out
}

pub trait Arb {
    fn arb() -> Self;
}

impl Arb for bool {
    fn arb() -> Self {
        pop(1)[0] & 1 == 1
    }
}

impl Arb for u8 {
    fn arb() -> Self {
        pop(1)[0]
    }
}

impl Arb for usize {
    fn arb() -> Self {
        Self::from_le_bytes(pop(8))
    }
}

impl Arb for isize {
    fn arb() -> Self {
        Self::from_le_bytes(pop(8))
    }
}

impl Arb for u64 {
    fn arb() -> Self {
        Self::from_le_bytes(pop(8))
    }
}

impl Arb for f64 {
    fn arb() -> Self {
        Self::from_le_bytes(pop(8))
    }
}

#[must_use]
pub fn any<T: Arb>() -> T {
    T::arb()
}

/// A violated assumption means the replayed values do not describe an
/// execution of this harness: the replay is void, not a reproduction.
pub fn assume(cond: bool) {
    if !cond {
        eprintln!("REPLAY-ASSUME-FAILED");
        std::process::exit(3);
    }
}

macro_rules! cover_ {
    ($($t:tt)*) => {};
}

pub(crate) use cover_ as cover;
