//! Developer probes (cost measurements); not part of any property.

use crate::{
    cx,
    nd,
};

#[cfg(not(kani))]
use crate::kani;

#[cfg(not(feature = "f0"))]
use vstd::collections::BinaryHeap;
#[cfg(feature = "f0")]
use std::collections::BinaryHeap;

// @verif prop=DEV tier=dev fl=f2 feat=cap4 role=probe/heap t=600 mem=10
#[cfg_attr(kani, kani::proof)]
#[cfg_attr(kani, kani::unwind(6))]
pub fn c99_probe_heap() {
    cx::set_vcap(4);

    let mut h = BinaryHeap::<(core::cmp::Reverse<usize>, usize)>::new();
    let n = nd::below(4);

    for i in 0..3 {
        if i < n {
            h.push((core::cmp::Reverse(nd::usize()), nd::below(3)));
        }
    }

    let a = h.pop();
    let b = h.pop();

    if let (Some(a), Some(b)) = (a, b) {
        assert!(a >= b, "pop order");
    }

    core::mem::forget(h);
}

// @verif prop=DEV tier=dev fl=f2 role=probe/empty t=600 mem=10
#[cfg_attr(kani, kani::proof)]
#[cfg_attr(kani, kani::unwind(6))]
pub fn c99_probe_empty() {
    let n = nd::below(4);

    assert!(n < 4, "trivial");
}

// @verif prop=DEV tier=dev fl=f2 role=probe/cmp t=600 mem=10
#[cfg_attr(kani, kani::proof)]
#[cfg_attr(kani, kani::unwind(6))]
pub fn c99_probe_cmp() {
    let a = Some((core::cmp::Reverse(nd::usize()), nd::usize()));
    let b = Some((core::cmp::Reverse(nd::usize()), nd::usize()));
    let c = Some((core::cmp::Reverse(nd::usize()), nd::usize()));

    if a > b && b > c {
        assert!(a > c, "transitive");
    }
}

// @verif prop=DEV tier=dev fl=f2 role=probe t=1500 mem=14
#[cfg_attr(kani, kani::proof)]
#[cfg_attr(kani, kani::unwind(6))]
pub fn c99_bfm_n3_m3_w2() {
    crate::c07_bellman_ford::sparse::<3, 3>(-2, 2);
}

// @verif prop=DEV tier=dev fl=f2 role=probe t=1500 mem=14
#[cfg_attr(kani, kani::proof)]
#[cfg_attr(kani, kani::unwind(6))]
pub fn c99_bfm_n3_m4_w2() {
    crate::c07_bellman_ford::sparse::<3, 4>(-2, 2);
}

// @verif prop=DEV tier=dev fl=f2 role=probe t=1500 mem=14
#[cfg_attr(kani, kani::proof)]
#[cfg_attr(kani, kani::unwind(7))]
pub fn c99_bfm_n3_m5_w1() {
    crate::c07_bellman_ford::sparse::<3, 5>(-1, 1);
}

// @verif prop=DEV tier=dev fl=f2 role=probe t=1500 mem=14
#[cfg_attr(kani, kani::proof)]
#[cfg_attr(kani, kani::unwind(11))]
pub fn c99_fw_n3_w() {
    crate::c08_floyd_warshall::dense::<3>(-1, 2);
}

// @verif prop=DEV tier=dev fl=f2 role=probe t=1500 mem=14
#[cfg_attr(kani, kani::proof)]
#[cfg_attr(kani, kani::unwind(6))]
pub fn c99_fw_n2() {
    crate::c08_floyd_warshall::dense::<2>(-4, 8);
}

// @verif prop=DEV tier=dev fl=f2 feat=map4 role=probe t=900 mem=14 rec=::connect:4
#[cfg_attr(kani, kani::proof)]
#[cfg_attr(kani, kani::unwind(5))]
pub fn c99_tarjan_fixed() {
    use crate::oracle::G;
    use graaf::Tarjan;

    cx::set_vcap(4);

    let mut g = G::<3>::empty();

    g.a[0][1] = true;
    g.a[1][0] = true;
    g.a[2][0] = nd::bool();

    let mut t = Tarjan::new(&g);
    let comps = t.components();

    assert!(comps.len() == 2, "two components");
    core::mem::forget(t);
}
