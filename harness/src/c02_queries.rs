//! C02 — every query returns its textbook definition over the arc set.

use {
    crate::{
        cx,
        nd,
        oracle::G,
    },
    graaf::{
        AddArc,
        AddArcWeighted,
        AdjacencyList,
        AdjacencyListWeighted,
        AdjacencyMap,
        AdjacencyMatrix,
        ArcWeight,
        Arcs,
        Degree,
        DegreeSequence,
        EdgeList,
        Empty,
        HasArc,
        HasEdge,
        HasWalk,
        InNeighbors,
        Indegree,
        IndegreeSequence,
        IsBalanced,
        IsIsolated,
        IsPendant,
        Order,
        OutNeighbors,
        OutNeighborsWeighted,
        Outdegree,
        OutdegreeSequence,
        SemidegreeSequence,
        Sinks,
        Size,
        Sources,
        Vertices,
    },
};

#[cfg(not(kani))]
use crate::kani;

/// Everything that is derived from indegree / outdegree / vertices by a
/// blanket implementation or a default method, against the definitions.
fn derived<D, const N: usize>(d: &D, g: &G<N>)
where
    D: Indegree + Outdegree + Vertices,
{
    let mut maxd = 0;
    let mut mind = usize::MAX;
    let mut maxi = 0;
    let mut mini = usize::MAX;
    let mut maxo = 0;
    let mut mino = usize::MAX;
    let mut sinks = d.sinks();
    let mut sources = d.sources();
    let mut semi = d.semidegree_sequence();
    let mut outs = d.outdegree_sequence();

    for u in 0..N {
        let i = g.indeg(u);
        let o = g.outdeg(u);

        assert!(d.degree(u) == i + o, "degree = indegree + outdegree");
        assert!(d.is_isolated(u) == (i + o == 0), "is_isolated iff no incident arc");
        assert!(d.is_pendant(u) == (i + o == 1), "is_pendant iff degree 1");
        assert!(d.is_sink(u) == (o == 0), "is_sink iff outdegree 0");
        assert!(d.is_source(u) == (i == 0), "is_source iff indegree 0");
        assert!(semi.next() == Some((i, o)), "semidegree sequence in vertex order");
        assert!(outs.next() == Some(o), "outdegree sequence in vertex order");

        if o == 0 {
            assert!(sinks.next() == Some(u), "sinks() ascending");
        }

        if i == 0 {
            assert!(sources.next() == Some(u), "sources() ascending");
        }

        maxd = maxd.max(i + o);
        mind = mind.min(i + o);
        maxi = maxi.max(i);
        mini = mini.min(i);
        maxo = maxo.max(o);
        mino = mino.min(o);
    }

    assert!(sinks.next().is_none(), "sinks() lists nothing else");
    assert!(sources.next().is_none(), "sources() lists nothing else");
    assert!(semi.next().is_none(), "semidegree sequence has one entry per vertex");
    assert!(outs.next().is_none(), "outdegree sequence has one entry per vertex");
    assert!(d.max_degree() == maxd, "max_degree");
    assert!(d.min_degree() == mind, "min_degree");
    assert!(d.max_indegree() == maxi, "max_indegree");
    assert!(d.min_indegree() == mini, "min_indegree");
    assert!(d.max_outdegree() == maxo, "max_outdegree");
    assert!(d.min_outdegree() == mino, "min_outdegree");

    let mut bal = true;

    for u in 0..N {
        if g.indeg(u) != g.outdeg(u) {
            bal = false;
        }
    }

    assert!(d.is_balanced() == bal, "is_balanced iff indegree = outdegree everywhere");
}

fn blanket_array<const N: usize>() {
    let g = G::<N>::any();

    derived::<G<N>, N>(&g, &g);
    kani::cover!(g.indeg(0) == 0 && g.outdeg(0) == 0, "an isolated vertex");
    kani::cover!(g.indeg(0) + g.outdeg(0) == 1, "a pendant vertex");
}

pub trait Rep:
    Empty
    + AddArc
    + HasArc
    + HasEdge
    + HasWalk
    + Size
    + Order
    + Arcs
    + Vertices
    + Indegree
    + Outdegree
    + InNeighbors
    + OutNeighbors
    + DegreeSequence
    + IndegreeSequence
    + Clone
    + PartialEq
{
}

impl Rep for AdjacencyList {}
impl Rep for AdjacencyMap {}
impl Rep for AdjacencyMatrix {}
impl Rep for EdgeList {}

fn build<R: Empty + AddArc, const N: usize>(g: &G<N>) -> R {
    let mut d = R::empty(N);

    for u in 0..N {
        for v in 0..N {
            if g.a[u][v] {
                d.add_arc(u, v);
            }
        }
    }

    d
}

/// A vertex argument: in range, just out of range, or far out.
fn vertex_arg(n: usize) -> usize {
    let x = nd::below(n + 2);

    if x == n + 1 {
        usize::MAX
    } else {
        x
    }
}

/// Inherent queries of a representation on every digraph of order N, with the
/// thread count the parallel ones may use symbolic in 1..=P.
pub fn inherent<R: Rep, const N: usize>(pmax: usize) {
    let cfg = pmax;
    let pmax = cx::threads_max(cfg);

    cx::set_vcap(N.max(pmax) + 1);

    let p = cx::threads(cfg);

    let g = G::<N>::any();
    let d = build::<R, N>(&g);
    let before = d.clone();

    assert!(d.order() == N, "order");
    assert!(d.size() == g.size(), "size");

    {
        let mut degs = d.degree_sequence();
        let mut ins = d.indegree_sequence();

        for u in 0..N {
            assert!(d.indegree(u) == g.indeg(u), "indegree");
            assert!(d.outdegree(u) == g.outdeg(u), "outdegree");
            assert!(degs.next() == Some(g.indeg(u) + g.outdeg(u)), "degree sequence in vertex order");
            assert!(ins.next() == Some(g.indeg(u)), "indegree sequence in vertex order");

            let mut outn = d.out_neighbors(u);
            let mut inn = d.in_neighbors(u);

            for v in 0..N {
                assert!(d.has_arc(u, v) == g.a[u][v], "has_arc");
                assert!(d.has_edge(u, v) == (g.a[u][v] && g.a[v][u]), "has_edge");

                if g.a[u][v] {
                    assert!(outn.next() == Some(v), "out_neighbors ascending, no repeats");
                }

                if g.a[v][u] {
                    assert!(inn.next() == Some(v), "in_neighbors ascending, no repeats");
                }
            }

            assert!(outn.next().is_none(), "out_neighbors lists nothing else");
            assert!(inn.next().is_none(), "in_neighbors lists nothing else");
        }

        assert!(degs.next().is_none(), "degree sequence has one entry per vertex");
        assert!(ins.next().is_none(), "indegree sequence has one entry per vertex");
    }

    // total queries with arbitrary ids
    let a = vertex_arg(N);
    let b = vertex_arg(N);
    let def_ab = a < N && b < N && g.a[a][b];
    let def_ba = a < N && b < N && g.a[b][a];

    assert!(d.has_arc(a, b) == def_ab, "has_arc answers 'absent' outside V");
    assert!(d.has_edge(a, b) == (def_ab && def_ba), "has_edge answers 'absent' outside V");

    // has_walk on every sequence of length 0..=3 over ids incl. out-of-range
    let len = nd::below(4);
    let w = [vertex_arg(N), vertex_arg(N), vertex_arg(N)];
    let mut def = len >= 2;

    for i in 0..2 {
        if i + 1 < len {
            let (x, y) = (w[i], w[i + 1]);

            if !(x < N && y < N && g.a[x][y]) {
                def = false;
            }
        }
    }

    assert!(d.has_walk(&w[..len]) == def, "has_walk iff >= 2 vertices and every consecutive pair is an arc");
    assert!(d == before, "queries do not change the digraph");
    kani::cover!(len == 3 && def, "a walk of three vertices exists");
    kani::cover!(cfg >= cx::EXACT || pmax <= N || p > N, "more threads than vertices");
    core::mem::forget(d);
    core::mem::forget(before);
}

fn derived_rep<R: Rep, const N: usize>() {
    cx::set_vcap(N + 1);
    cx::set_parallelism(1);

    let g = G::<N>::any();
    let d = build::<R, N>(&g);

    derived::<R, N>(&d, &g);
    core::mem::forget(d);
}

/// AdjacencyMap on a non-contiguous vertex set: ids from {0, 2, 3} (+ 3 via
/// add_arc), i.e. keys are not 0..order.
fn map_noncontiguous() {
    const IDS: [usize; 3] = [0, 2, 3];

    cx::set_vcap(8);

    let g = G::<3>::any();
    // empty(1) has vertex 0; the other ids enter through add_arc
    let mut d = AdjacencyMap::empty(1);
    let mut present = [false; 3];

    present[0] = true;

    for u in 0..3 {
        for v in 0..3 {
            if g.a[u][v] {
                d.add_arc(IDS[u], IDS[v]);
                present[u] = true;
                present[v] = true;
            }
        }
    }

    let before = d.clone();
    let mut order = 0;

    {
        let mut vs = d.vertices();

        for u in 0..3 {
            if present[u] {
                order += 1;

                assert!(vs.next() == Some(IDS[u]), "vertices() ascending");
            }
        }

        assert!(vs.next().is_none(), "vertices() lists nothing else");
    }

    assert!(d.order() == order, "order = |V|");
    assert!(d.size() == g.size(), "size");

    for u in 0..3 {
        if present[u] {
            assert!(d.indegree(IDS[u]) == g.indeg(u), "indegree");
            assert!(d.outdegree(IDS[u]) == g.outdeg(u), "outdegree");
            assert!(d.degree(IDS[u]) == g.indeg(u) + g.outdeg(u), "degree");
            assert!(d.is_sink(IDS[u]) == (g.outdeg(u) == 0), "is_sink");
            assert!(d.is_source(IDS[u]) == (g.indeg(u) == 0), "is_source");

            let mut outn = d.out_neighbors(IDS[u]);
            let mut inn = d.in_neighbors(IDS[u]);

            for v in 0..3 {
                if g.a[u][v] {
                    assert!(outn.next() == Some(IDS[v]), "out_neighbors ascending");
                }

                if g.a[v][u] {
                    assert!(inn.next() == Some(IDS[v]), "in_neighbors ascending");
                }
            }

            assert!(outn.next().is_none(), "out_neighbors lists nothing else");
            assert!(inn.next().is_none(), "in_neighbors lists nothing else");
        }

        for v in 0..3 {
            assert!(d.has_arc(IDS[u], IDS[v]) == g.a[u][v], "has_arc");
        }

        // ids between the keys are not vertices
        assert!(!d.has_arc(IDS[u], 1) && !d.has_arc(1, IDS[u]), "has_arc absent for a gap id");
    }

    {
        let mut degs = d.degree_sequence();
        let mut ins = d.indegree_sequence();
        let mut outs = d.outdegree_sequence();

        for u in 0..3 {
            if present[u] {
                assert!(degs.next() == Some(g.indeg(u) + g.outdeg(u)), "degree sequence in vertex order");
                assert!(ins.next() == Some(g.indeg(u)), "indegree sequence in vertex order");
                assert!(outs.next() == Some(g.outdeg(u)), "outdegree sequence in vertex order");
            }
        }

        assert!(degs.next().is_none() && ins.next().is_none() && outs.next().is_none(), "sequences end");
    }

    assert!(d == before, "queries do not change the digraph");
    kani::cover!(order == 3, "all three non-contiguous ids present");
    core::mem::forget(d);
    core::mem::forget(before);
}

/// The degree / indegree / outdegree / semidegree sequences of an
/// AdjacencyMap with vertex set within {0, 2, 3} follow vertices() (position,
/// not id).
fn map_noncontiguous_sequences() {
    const IDS: [usize; 3] = [0, 2, 3];

    cx::set_vcap(5);

    let g = G::<3>::any();
    let mut d = AdjacencyMap::empty(1);
    let mut present = [false; 3];

    present[0] = true;

    for u in 0..3 {
        for v in 0..3 {
            if g.a[u][v] {
                d.add_arc(IDS[u], IDS[v]);
                present[u] = true;
                present[v] = true;
            }
        }
    }

    {
        let mut degs = d.degree_sequence();
        let mut ins = d.indegree_sequence();
        let mut outs = d.outdegree_sequence();
        let mut semi = d.semidegree_sequence();

        for u in 0..3 {
            if present[u] {
                assert!(degs.next() == Some(g.indeg(u) + g.outdeg(u)), "degree sequence in vertex order");
                assert!(ins.next() == Some(g.indeg(u)), "indegree sequence in vertex order");
                assert!(outs.next() == Some(g.outdeg(u)), "outdegree sequence in vertex order");
                assert!(semi.next() == Some((g.indeg(u), g.outdeg(u))), "semidegree sequence in vertex order");
            }
        }

        assert!(degs.next().is_none(), "degree sequence has one entry per vertex");
        assert!(ins.next().is_none(), "indegree sequence has one entry per vertex");
        assert!(outs.next().is_none(), "outdegree sequence has one entry per vertex");
        assert!(semi.next().is_none(), "semidegree sequence has one entry per vertex");
    }

    kani::cover!(present[1] && !present[2], "vertex set {0, 2}");
    core::mem::forget(d);
}

/// AdjacencyListWeighted<usize>: weighted neighbour queries.
fn weighted<const N: usize>() {
    cx::set_vcap(N + 1);

    let mut d = AdjacencyListWeighted::<usize>::empty(N);
    let mut m = [[None::<usize>; N]; N];
    let mut g = G::<N>::empty();

    for u in 0..N {
        for v in 0..N {
            if u != v && nd::bool() {
                let w = nd::usize();

                d.add_arc_weighted(u, v, w);
                m[u][v] = Some(w);
                g.a[u][v] = true;
            }
        }
    }

    let before = d.clone();

    assert!(d.order() == N, "order");
    assert!(d.size() == g.size(), "size");

    for u in 0..N {
        assert!(d.indegree(u) == g.indeg(u), "indegree");
        assert!(d.outdegree(u) == g.outdeg(u), "outdegree");
        assert!(d.is_sink(u) == (g.outdeg(u) == 0), "is_sink");
        assert!(d.is_source(u) == (g.indeg(u) == 0), "is_source");

        let mut outn = d.out_neighbors(u);
        let mut outw = d.out_neighbors_weighted(u);
        let mut inn = d.in_neighbors(u);

        for v in 0..N {
            assert!(d.has_arc(u, v) == g.a[u][v], "has_arc");
            assert!(d.has_edge(u, v) == (g.a[u][v] && g.a[v][u]), "has_edge");
            assert!(d.arc_weight(u, v).copied() == m[u][v], "arc_weight");

            if let Some(w) = m[u][v] {
                assert!(outn.next() == Some(v), "out_neighbors ascending");

                match outw.next() {
                    Some((x, y)) => assert!(x == v && *y == w, "out_neighbors_weighted ascending with weights"),
                    None => panic!("out_neighbors_weighted ascending with weights"),
                }
            }

            if g.a[v][u] {
                assert!(inn.next() == Some(v), "in_neighbors ascending");
            }
        }

        assert!(outn.next().is_none(), "out_neighbors lists nothing else");
        assert!(outw.next().is_none(), "out_neighbors_weighted lists nothing else");
        assert!(inn.next().is_none(), "in_neighbors lists nothing else");
    }

    let a = vertex_arg(N);
    let b = vertex_arg(N);
    let inr = a < N && b < N;

    assert!(d.has_arc(a, b) == (inr && g.a[a][b]), "has_arc answers 'absent' outside V");
    assert!(d.arc_weight(a, b).copied() == if inr { m[a][b] } else { None }, "arc_weight answers 'absent' outside V");

    let len = nd::below(4);
    let w = [vertex_arg(N), vertex_arg(N), vertex_arg(N)];
    let mut def = len >= 2;

    for i in 0..2 {
        if i + 1 < len {
            let (x, y) = (w[i], w[i + 1]);

            if !(x < N && y < N && g.a[x][y]) {
                def = false;
            }
        }
    }

    assert!(d.has_walk(&w[..len]) == def, "has_walk");
    assert!(d == before, "queries do not change the digraph");
    core::mem::forget(d);
    core::mem::forget(before);
}

// The 14 blanket / default implementations over the array digraph: all 4096 digraphs on 4 vertices.
// @verif prop=C02 tier=quick fl=f0 role=blanket/array t=600 mem=10
#[cfg_attr(kani, kani::proof)]
#[cfg_attr(kani, kani::unwind(8))]
pub fn c02_blanket_array_n4() {
    blanket_array::<4>();
}

// @verif prop=C02 tier=thorough fl=f0 role=blanket/array t=3600 mem=16
#[cfg_attr(kani, kani::proof)]
#[cfg_attr(kani, kani::unwind(8))]
pub fn c02_blanket_array_n5() {
    blanket_array::<5>();
}

// @verif prop=C02 tier=quick fl=f0 role=inherent/matrix t=1500 mem=24
#[cfg_attr(kani, kani::proof)]
#[cfg_attr(kani, kani::unwind(10))]
pub fn c02_inherent_matrix_n3() {
    inherent::<AdjacencyMatrix, 3>(1);
}

// @verif prop=C02 tier=quick fl=f1 role=inherent/edge-list t=900 mem=12
#[cfg_attr(kani, kani::proof)]
#[cfg_attr(kani, kani::unwind(8))]
pub fn c02_inherent_edge_list_n3() {
    inherent::<EdgeList, 3>(1);
}

// AdjacencyList incl. the threaded degree_sequence with 2 worker threads.
// @verif prop=C02 tier=quick fl=f2 role=inherent/adjacency-list t=1500 mem=14 par=2
#[cfg_attr(kani, kani::proof)]
#[cfg_attr(kani, kani::unwind(8))]
pub fn c02_inherent_adjacency_list_n3_t2() {
    inherent::<AdjacencyList, 3>(cx::EXACT + 2);
}

// ... with the thread count symbolic in 1..=4.
// @verif prop=C02 tier=exp fl=f2 role=inherent/adjacency-list t=3600 mem=30
#[cfg_attr(kani, kani::proof)]
#[cfg_attr(kani, kani::unwind(8))]
pub fn c02_inherent_adjacency_list_n3_p4() {
    inherent::<AdjacencyList, 3>(4);
}

// @verif prop=C02 tier=quick fl=f1 feat=map4 role=inherent/adjacency-map t=1500 mem=20
#[cfg_attr(kani, kani::proof)]
#[cfg_attr(kani, kani::unwind(10))]
pub fn c02_inherent_adjacency_map_n3() {
    inherent::<AdjacencyMap, 3>(1);
}

// @verif prop=C02 tier=exp fl=f1 feat=map4 role=noncontiguous/adjacency-map t=3600 mem=30
#[cfg_attr(kani, kani::proof)]
#[cfg_attr(kani, kani::unwind(10))]
pub fn c02_map_noncontiguous() {
    map_noncontiguous();
}

// Sequences of an AdjacencyMap on a vertex set within {0, 2, 3}.
// @verif prop=C02 tier=quick fl=f2 feat=map4,fixedcap role=noncontiguous-sequences/adjacency-map t=1500 mem=24
#[cfg_attr(kani, kani::proof)]
#[cfg_attr(kani, kani::unwind(8))]
pub fn c02_map_noncontiguous_sequences() {
    map_noncontiguous_sequences();
}

// @verif prop=C02 tier=quick fl=f1 feat=map4 role=inherent/weighted t=1500 mem=20
#[cfg_attr(kani, kani::proof)]
#[cfg_attr(kani, kani::unwind(10))]
pub fn c02_weighted_n3() {
    weighted::<3>();
}

// @verif prop=C02 tier=quick fl=f1 role=derived/edge-list t=900 mem=12
#[cfg_attr(kani, kani::proof)]
#[cfg_attr(kani, kani::unwind(8))]
pub fn c02_derived_edge_list_n3() {
    derived_rep::<EdgeList, 3>();
}

// @verif prop=C02 tier=quick fl=f0 role=derived/matrix t=900 mem=12
#[cfg_attr(kani, kani::proof)]
#[cfg_attr(kani, kani::unwind(10))]
pub fn c02_derived_matrix_n3() {
    derived_rep::<AdjacencyMatrix, 3>();
}

// @verif prop=C02 tier=thorough fl=f1 role=derived/adjacency-list t=1800 mem=16
#[cfg_attr(kani, kani::proof)]
#[cfg_attr(kani, kani::unwind(8))]
pub fn c02_derived_adjacency_list_n3() {
    derived_rep::<AdjacencyList, 3>();
}

// @verif prop=C02 tier=thorough fl=f1 feat=map4 role=derived/adjacency-map t=1800 mem=16
#[cfg_attr(kani, kani::proof)]
#[cfg_attr(kani, kani::unwind(10))]
pub fn c02_derived_adjacency_map_n3() {
    derived_rep::<AdjacencyMap, 3>();
}

// @verif prop=C02 tier=exp fl=f0 role=inherent/matrix t=3600 mem=24
#[cfg_attr(kani, kani::proof)]
#[cfg_attr(kani, kani::unwind(16))]
pub fn c02_inherent_matrix_n4() {
    inherent::<AdjacencyMatrix, 4>(1);
}

// @verif prop=C02 tier=thorough fl=f1 role=inherent/edge-list t=3600 mem=16
#[cfg_attr(kani, kani::proof)]
#[cfg_attr(kani, kani::unwind(15))]
pub fn c02_inherent_edge_list_n4() {
    inherent::<EdgeList, 4>(1);
}
