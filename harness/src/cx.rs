//! Flavour switch: the container types graaf's public API exposes, and the
//! verification knobs.

#[cfg(feature = "f0")]
mod imp {
    pub use std::{
        collections::{
            BTreeMap,
            BTreeSet,
        },
        vec::Vec,
    };

    pub const FLAVOUR: &str = "f0";
    pub const MODEL_THREADS: bool = false;

    /// Real std: nothing to set.
    pub fn set_vcap(_n: usize) {}
    /// Real threads: the thread count is whatever the OS says.
    pub fn set_parallelism(_p: usize) {}
    pub fn spawned() -> usize {
        0
    }

    #[macro_export]
    macro_rules! vvec {
        ($($t:tt)*) => { ::std::vec![$($t)*] };
    }
}

#[cfg(not(feature = "f0"))]
mod imp {
    pub use vstd::{
        collections::{
            BTreeMap,
            BTreeSet,
        },
        shim_prelude::Vec,
    };

    #[cfg(feature = "f1")]
    pub const FLAVOUR: &str = "f1";
    #[cfg(feature = "f2")]
    pub const FLAVOUR: &str = "f2";
    pub const MODEL_THREADS: bool = true;

    pub fn set_vcap(n: usize) {
        vstd::verif::set_vcap(n);
    }

    pub fn set_parallelism(p: usize) {
        vstd::verif::set_parallelism(p);
    }

    pub fn spawned() -> usize {
        vstd::verif::spawned()
    }

    #[macro_export]
    macro_rules! vvec {
        ($($t:tt)*) => {{
            use vstd::shim_prelude::vec;
            vec![$($t)*]
        }};
    }
}

pub use imp::*;

/// Thread-count configuration of a harness: a symbolic count in `1..=n`
/// (decided for all counts in one query) or one concrete count (the
/// configuration quantifier enumerated over several harnesses where the
/// symbolic form is too expensive). Encoded in one `usize`: `n` = any of
/// 1..=n, `EXACT + p` = exactly p.
pub const EXACT: usize = 1000;

/// Sets `available_parallelism()` and returns the chosen count.
pub fn threads(cfg: usize) -> usize {
    let p = if cfg >= EXACT {
        cfg - EXACT
    } else {
        crate::nd::below(cfg) + 1
    };

    set_parallelism(p);

    p
}

/// Largest count the configuration allows.
pub const fn threads_max(cfg: usize) -> usize {
    if cfg >= EXACT {
        cfg - EXACT
    } else {
        cfg
    }
}
