//! C01 — every representation tracks the abstract digraph under any mutation
//! history.
//!
//! Shape of every harness: an *arbitrary start digraph* on N vertices (loaded
//! through the public API) followed by K symbolic operations with arbitrary
//! (valid, just-out-of-range and far-out) vertex arguments, compared with a
//! bit-matrix model that is updated by the set definition of each operation.
//! Calls the documentation rejects cannot be continued after under Kani (no
//! unwinding), so inside a history their precondition is assumed and the
//! `*_rejects` twins (`should_panic`) decide that *every* rejected call panics.

use {
    crate::{
        cx,
        nd,
        oracle::G,
    },
    graaf::{
        AddArc,
        AddArcWeighted,
        AdjacencyList,
        AdjacencyListWeighted,
        AdjacencyMap,
        AdjacencyMatrix,
        ArcWeight,
        Arcs,
        ArcsWeighted,
        EdgeList,
        Empty,
        HasArc,
        Order,
        RemoveArc,
        Size,
        Vertices,
    },
};

#[cfg(not(kani))]
use crate::kani;

pub trait Rep:
    Empty + AddArc + RemoveArc + HasArc + Size + Order + Arcs + Vertices
{
    const TOGGLE: bool = false;

    fn tog(&mut self, _u: usize, _v: usize) {}
}

impl Rep for AdjacencyList {}
impl Rep for AdjacencyMap {}
impl Rep for EdgeList {}

impl Rep for AdjacencyMatrix {
    const TOGGLE: bool = true;

    fn tog(&mut self, u: usize, v: usize) {
        self.toggle(u, v);
    }
}

/// A vertex argument: in range (0..n), just out of range (n), or far out.
fn vertex_arg(n: usize) -> usize {
    let x = nd::below(n + 2);

    if x == n + 1 {
        usize::MAX
    } else {
        x
    }
}

/// Observable state of `d` == model (`verts`, `m`) over ids `0..NX`, plus the
/// far-out id.
fn check_state<R: Rep, const NX: usize>(
    d: &R,
    verts: &[bool; NX],
    m: &[[bool; NX]; NX],
) {
    let mut order = 0;
    let mut size = 0;

    for u in 0..NX {
        if verts[u] {
            order += 1;
        }

        for v in 0..NX {
            if m[u][v] {
                size += 1;
            }
        }
    }

    assert!(d.order() == order, "order = |V|");
    assert!(d.size() == size, "size = |A|");

    let mut vs = d.vertices();

    for u in 0..NX {
        if verts[u] {
            assert!(vs.next() == Some(u), "vertices() lists V ascending, each once");
        }
    }

    assert!(vs.next().is_none(), "vertices() lists nothing else");

    let mut arcs = d.arcs();

    for u in 0..NX {
        for v in 0..NX {
            assert!(d.has_arc(u, v) == m[u][v], "has_arc = membership in A");

            if m[u][v] {
                assert!(
                    arcs.next() == Some((u, v)),
                    "arcs() lists A in lexicographic order, each once"
                );
            }
        }

        assert!(!d.has_arc(u, usize::MAX), "no arc to a far-out id");
        assert!(!d.has_arc(usize::MAX, u), "no arc from a far-out id");
    }

    assert!(arcs.next().is_none(), "arcs() lists nothing else");
}

/// Load an arbitrary digraph on 0..N into a fresh `R::empty(N)`.
fn load<R: Rep, const N: usize, const NX: usize>(
    m: &mut [[bool; NX]; NX],
) -> R {
    let g = G::<N>::any();
    let mut d = R::empty(N);

    for u in 0..N {
        for v in 0..N {
            if g.a[u][v] {
                d.add_arc(u, v);
                m[u][v] = true;
            }
        }
    }

    d
}

/// Fixed-order representations (V = 0..N): NX = N.
fn history_fixed<R: Rep, const N: usize, const K: usize>() {
    cx::set_vcap(N * N);

    let mut m = [[false; N]; N];
    let mut d = load::<R, N, N>(&mut m);
    let verts = [true; N];
    let mut removed_then_added = false;
    let mut was_removed = [[false; N]; N];

    for _ in 0..K {
        let op = nd::below(if R::TOGGLE { 3 } else { 2 });
        let u = vertex_arg(N);
        let v = vertex_arg(N);
        let valid = u != v && u < N && v < N;

        if op == 0 {
            // documented precondition of add_arc; the complement is `*_rejects`
            kani::assume(valid);

            d.add_arc(u, v);

            if was_removed[u][v] {
                removed_then_added = true;
            }

            m[u][v] = true;
        } else if op == 1 {
            // remove_arc is documented total
            let was = u < N && v < N && m[u][v];
            let r = d.remove_arc(u, v);

            assert!(r == was, "remove_arc returns whether the arc was present");

            if was {
                m[u][v] = false;
                was_removed[u][v] = true;
            }
        } else {
            kani::assume(valid);

            d.tog(u, v);
            m[u][v] = !m[u][v];
        }
    }

    check_state::<R, N>(&d, &verts, &m);
    kani::cover!(removed_then_added, "some arc was removed and re-added");
    core::mem::forget(d);
}

/// Arbitrary history, then one call the documentation rejects: must panic.
fn rejects_fixed<R: Rep, const N: usize>() {
    cx::set_vcap(N * N);

    let mut m = [[false; N]; N];
    let mut d = load::<R, N, N>(&mut m);
    let op = nd::below(if R::TOGGLE { 2 } else { 1 });
    let u = vertex_arg(N);
    let v = vertex_arg(N);

    kani::assume(u == v || u >= N || v >= N);

    if op == 0 {
        d.add_arc(u, v);
    } else {
        d.tog(u, v);
    }

    crate::rejected_call_returned();
}

/// AdjacencyMap: add_arc admits new endpoints (ids < NX).
fn history_map<const N: usize, const NX: usize, const K: usize>() {
    cx::set_vcap(NX * NX);

    let mut m = [[false; NX]; NX];
    let mut d = load::<AdjacencyMap, N, NX>(&mut m);
    let mut verts = [false; NX];

    for u in 0..N {
        verts[u] = true;
    }

    let mut grew = false;

    for _ in 0..K {
        let op = nd::below(2);
        let u = vertex_arg(NX);
        let v = vertex_arg(NX);

        if op == 0 {
            // documented: only self-loops are rejected; ids beyond the model
            // bound of the map (NX <= 8) are outside this claim
            kani::assume(u != v && u < NX && v < NX);

            d.add_arc(u, v);

            if !verts[u] || !verts[v] {
                grew = true;
            }

            verts[u] = true;
            verts[v] = true;
            m[u][v] = true;
        } else {
            let was = u < NX && v < NX && m[u][v];
            let r = d.remove_arc(u, v);

            assert!(r == was, "remove_arc returns whether the arc was present");

            if was {
                m[u][v] = false;
            }
        }
    }

    check_state::<AdjacencyMap, NX>(&d, &verts, &m);
    kani::cover!(grew, "add_arc admitted a new vertex");
    core::mem::forget(d);
}

fn rejects_map<const N: usize>() {
    cx::set_vcap(N * N);

    let mut m = [[false; N]; N];
    let mut d = load::<AdjacencyMap, N, N>(&mut m);
    let u = nd::below(N + 2);

    d.add_arc(u, u);
    crate::rejected_call_returned();
}

/// AdjacencyListWeighted<usize>: re-adding replaces the weight.
fn history_weighted<const N: usize, const K: usize>() {
    history_weighted_impl::<N, K, true>();
}

/// `ITER = false`: the observable state is compared through arc_weight / has_arc / size / order only
/// (no arcs() / arcs_weighted() / vertices() iteration): the cheap quick form.
fn history_weighted_impl<const N: usize, const K: usize, const ITER: bool>() {
    cx::set_vcap(N * N);

    let mut d = AdjacencyListWeighted::<usize>::empty(N);
    let mut m = [[None::<usize>; N]; N];

    // arbitrary start state
    for u in 0..N {
        for v in 0..N {
            if u != v && nd::bool() {
                let w = nd::usize();

                d.add_arc_weighted(u, v, w);
                m[u][v] = Some(w);
            }
        }
    }

    let mut replaced = false;

    for _ in 0..K {
        let op = nd::below(2);
        let u = vertex_arg(N);
        let v = vertex_arg(N);

        if op == 0 {
            kani::assume(u != v && u < N && v < N);

            let w = nd::usize();

            if m[u][v].is_some() && m[u][v] != Some(w) {
                replaced = true;
            }

            d.add_arc_weighted(u, v, w);
            m[u][v] = Some(w);
        } else {
            let was = u < N && v < N && m[u][v].is_some();
            let r = d.remove_arc(u, v);

            assert!(r == was, "remove_arc returns whether the arc was present");

            if was {
                m[u][v] = None;
            }
        }
    }

    let mut size = 0;

    if !ITER {
        for u in 0..N {
            for v in 0..N {
                assert!(d.has_arc(u, v) == m[u][v].is_some(), "has_arc = membership in A");
                assert!(d.arc_weight(u, v).copied() == m[u][v], "arc_weight = w(u, v)");

                if m[u][v].is_some() {
                    size += 1;
                }
            }

            assert!(!d.has_arc(u, usize::MAX), "no arc to a far-out id");
            assert!(d.arc_weight(usize::MAX, u).is_none(), "no weight from a far-out id");
        }
    }

    if ITER {
    let mut vs = d.vertices();
    let mut arcs = d.arcs();
    let mut arcsw = d.arcs_weighted();

    for u in 0..N {
        assert!(vs.next() == Some(u), "vertices() lists V ascending");

        for v in 0..N {
            assert!(d.has_arc(u, v) == m[u][v].is_some(), "has_arc = membership in A");
            assert!(d.arc_weight(u, v).copied() == m[u][v], "arc_weight = w(u, v)");

            if let Some(w) = m[u][v] {
                size += 1;

                assert!(arcs.next() == Some((u, v)), "arcs() lists A in order");

                match arcsw.next() {
                    Some((a, b, c)) => assert!(
                        a == u && b == v && *c == w,
                        "arcs_weighted() lists (u, v, w) in order"
                    ),
                    None => panic!("arcs_weighted() lists (u, v, w) in order"),
                }
            }
        }

        assert!(!d.has_arc(u, usize::MAX), "no arc to a far-out id");
        assert!(d.arc_weight(usize::MAX, u).is_none(), "no weight from a far-out id");
    }

    assert!(vs.next().is_none(), "vertices() lists nothing else");
    assert!(arcs.next().is_none(), "arcs() lists nothing else");
    assert!(arcsw.next().is_none(), "arcs_weighted() lists nothing else");
    }

    assert!(d.size() == size, "size = |A|");
    assert!(d.order() == N, "order = |V|");
    kani::cover!(replaced, "a weight was replaced by re-adding");
    core::mem::forget(d);
}

fn rejects_weighted<const N: usize>() {
    cx::set_vcap(N * N);

    let mut d = AdjacencyListWeighted::<usize>::empty(N);

    for u in 0..N {
        for v in 0..N {
            if u != v && nd::bool() {
                d.add_arc_weighted(u, v, 1);
            }
        }
    }

    let u = vertex_arg(N);
    let v = vertex_arg(N);

    kani::assume(u == v || u >= N || v >= N);

    d.add_arc_weighted(u, v, nd::usize());
    crate::rejected_call_returned();
}

// AdjacencyMatrix, real std, arbitrary 3-vertex start + 3 ops incl. toggle.
// @verif prop=C01 tier=quick fl=f0 role=history/matrix t=600 mem=10
#[cfg_attr(kani, kani::proof)]
#[cfg_attr(kani, kani::unwind(10))]
pub fn c01_history_matrix_n3_k3() {
    history_fixed::<AdjacencyMatrix, 3, 3>();
}

// AdjacencyMatrix at order 8: cells 0..63 are exactly one 64-bit block.
// @verif prop=C01 tier=exp fl=f0 role=history/matrix t=1800 mem=16
#[cfg_attr(kani, kani::proof)]
#[cfg_attr(kani, kani::unwind(10))]
pub fn c01_history_matrix_n8_k2() {
    history_fixed::<AdjacencyMatrix, 8, 2>();
}

// @verif prop=C01 tier=quick fl=f0 role=rejects/matrix t=600 mem=10 expect=panic
#[cfg_attr(kani, kani::proof)]
#[cfg_attr(kani, kani::unwind(10))]
pub fn c01_rejects_matrix_n3() {
    rejects_fixed::<AdjacencyMatrix, 3>();
}

// @verif prop=C01 tier=quick fl=f1 role=history/edge-list t=600 mem=10
#[cfg_attr(kani, kani::proof)]
#[cfg_attr(kani, kani::unwind(8))]
pub fn c01_history_edge_list_n3_k3() {
    history_fixed::<EdgeList, 3, 3>();
}

// @verif prop=C01 tier=quick fl=f1 role=rejects/edge-list t=600 mem=10 expect=panic
#[cfg_attr(kani, kani::proof)]
#[cfg_attr(kani, kani::unwind(8))]
pub fn c01_rejects_edge_list_n3() {
    rejects_fixed::<EdgeList, 3>();
}

// @verif prop=C01 tier=quick fl=f1 role=history/adjacency-list t=900 mem=12
#[cfg_attr(kani, kani::proof)]
#[cfg_attr(kani, kani::unwind(8))]
pub fn c01_history_adjacency_list_n3_k3() {
    history_fixed::<AdjacencyList, 3, 3>();
}

// @verif prop=C01 tier=quick fl=f1 role=rejects/adjacency-list t=600 mem=10 expect=panic
#[cfg_attr(kani, kani::proof)]
#[cfg_attr(kani, kani::unwind(8))]
pub fn c01_rejects_adjacency_list_n3() {
    rejects_fixed::<AdjacencyList, 3>();
}

// AdjacencyMap::empty(2) + arbitrary arcs, then 2 ops with ids 0..4 (vertex growth).
// @verif prop=C01 tier=exp fl=f1 feat=map4 role=history/adjacency-map t=3600 mem=30
#[cfg_attr(kani, kani::proof)]
#[cfg_attr(kani, kani::unwind(10))]
pub fn c01_history_adjacency_map_n2_x4_k2() {
    history_map::<2, 4, 2>();
}

// @verif prop=C01 tier=quick fl=f1 feat=map4 role=rejects/adjacency-map t=600 mem=10 expect=panic
#[cfg_attr(kani, kani::proof)]
#[cfg_attr(kani, kani::unwind(10))]
pub fn c01_rejects_adjacency_map_n3() {
    rejects_map::<3>();
}

// @verif prop=C01 tier=exp fl=f1 feat=map4 role=history/weighted t=3600 mem=30
#[cfg_attr(kani, kani::proof)]
#[cfg_attr(kani, kani::unwind(10))]
pub fn c01_history_weighted_n3_k2() {
    history_weighted::<3, 2>();
}

// @verif prop=C01 tier=quick fl=f1 feat=map4 role=rejects/weighted t=600 mem=10 expect=panic
#[cfg_attr(kani, kani::proof)]
#[cfg_attr(kani, kani::unwind(10))]
pub fn c01_rejects_weighted_n3() {
    rejects_weighted::<3>();
}

// @verif prop=C01 tier=thorough fl=f1 role=history/edge-list t=3600 mem=16
#[cfg_attr(kani, kani::proof)]
#[cfg_attr(kani, kani::unwind(8))]
pub fn c01_history_edge_list_n4_k4() {
    history_fixed::<EdgeList, 4, 4>();
}

// @verif prop=C01 tier=thorough fl=f1 role=history/adjacency-list t=3600 mem=16
#[cfg_attr(kani, kani::proof)]
#[cfg_attr(kani, kani::unwind(8))]
pub fn c01_history_adjacency_list_n4_k3() {
    history_fixed::<AdjacencyList, 4, 3>();
}

// @verif prop=C01 tier=thorough fl=f0 role=history/matrix t=3600 mem=16
#[cfg_attr(kani, kani::proof)]
#[cfg_attr(kani, kani::unwind(8))]
pub fn c01_history_matrix_n4_k4() {
    history_fixed::<AdjacencyMatrix, 4, 4>();
}

// Inductive form: arbitrary start digraph + ONE operation (every state of these representations is reachable as a set
// of arcs, so one step from an arbitrary start covers histories of any length for this order).
// @verif prop=C01 tier=thorough fl=f1 feat=map4 role=history/adjacency-map t=3000 mem=20
#[cfg_attr(kani, kani::proof)]
#[cfg_attr(kani, kani::unwind(8))]
pub fn c01_history_adjacency_map_n2_x3_k1() {
    history_map::<2, 3, 1>();
}

// @verif prop=C01 tier=thorough fl=f1 feat=map4 role=history/weighted t=3000 mem=20
#[cfg_attr(kani, kani::proof)]
#[cfg_attr(kani, kani::unwind(8))]
pub fn c01_history_weighted_n2_k2() {
    history_weighted::<2, 2>();
}

// Quick forms (every registered quick command has to finish well within 15 min): AdjacencyMap from empty(1), one
// operation with ids < 2 (vertex growth or removal); weighted list on 3 vertices, arbitrary start + 2 operations, compared through arc_weight / has_arc / size (the form that
// also iterates arcs_weighted() is thorough).
// @verif prop=C01 tier=quick fl=f1 feat=map4 role=history/adjacency-map t=900 mem=16
#[cfg_attr(kani, kani::proof)]
#[cfg_attr(kani, kani::unwind(8))]
pub fn c01_history_adjacency_map_n1_x2_k1() {
    history_map::<1, 2, 1>();
}

// @verif prop=C01 tier=quick fl=f1 feat=map4 role=history/weighted t=900 mem=16
#[cfg_attr(kani, kani::proof)]
#[cfg_attr(kani, kani::unwind(8))]
pub fn c01_history_weighted_light_n3_k2() {
    history_weighted_impl::<3, 2, false>();
}
