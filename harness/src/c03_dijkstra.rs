//! C03 — Dijkstra reports exact shortest distances and visits each reachable
//! vertex once.

use {
    crate::{
        cx,
        nd,
        oracle::{
            mask,
            AL,
            INF,
            WG,
        },
    },
    graaf::{
        AddArcWeighted,
        AdjacencyListWeighted,
        Dijkstra,
        DijkstraDist,
        Empty,
    },
};

#[cfg(not(kani))]
use crate::kani;

/// Weights range over 0..2^62: with at most 3 arcs on a shortest path every
/// path sum (and every sum Dijkstra or the reference forms) stays below 2^64,
/// so "path sums fit in usize" holds, while distances >= usize::MAX / 2 occur.
pub const WMAX: usize = 1 << 62;

/// Every simple arc-weighted digraph on N vertices with at most M arcs and
/// weights < WMAX (zero included), as a symbolic arc list.
pub fn any_arcs<const N: usize, const M: usize>(wmax: usize) -> AL<M, usize> {
    let m = nd::below(M + 1);
    let mut arcs = [(0_usize, 0_usize, 0_usize); M];

    for i in 0..M {
        let u = nd::below(N);
        let v = nd::below(N);
        let w = nd::below(wmax);

        arcs[i] = (u, v, w);
    }

    let g = AL { n: N, m, arcs };

    kani::assume(g.is_simple());

    g
}

/// Source sets with at most `kmax` sources (distinct by construction).
pub fn any_sources<const N: usize>(kmax: usize) -> [bool; N] {
    let src: [bool; N] = nd::bools();
    let mut k = 0;

    for s in 0..N {
        if src[s] {
            k += 1;
        }
    }

    kani::assume(k <= kmax);

    src
}

fn distances_sparse<const N: usize, const M: usize>() {
    cx::set_vcap(N + M);

    let g = any_arcs::<N, M>(WMAX);
    let src = any_sources::<N>(2);
    let want = g.dense::<N>().dist(&src);
    let mut it = DijkstraDist::new(&g, mask(src));
    let d = it.distances();

    assert!(d.len() == N, "one entry per vertex");

    for v in 0..N {
        assert!(d[v] == want[v], "distances()[v] = min walk weight, MAX iff unreachable");
    }

    kani::cover!(want[N - 1] == INF, "an unreachable vertex");
    kani::cover!(g.m == M && want[N - 1] != INF && want[N - 1] > 0, "all arcs live, last vertex reached");
    core::mem::forget(d);
    core::mem::forget(it);
}

fn iter_sparse<const N: usize, const M: usize>() {
    cx::set_vcap(N + M);

    let g = any_arcs::<N, M>(WMAX);
    let src = any_sources::<N>(2);
    let want = g.dense::<N>().dist(&src);
    let mut seen = [false; N];
    let mut last = 0;
    let mut it = Dijkstra::new(&g, mask(src));

    for _ in 0..N {
        match it.next() {
            Some(u) => {
                assert!(u < N, "yielded id in range");
                assert!(!seen[u], "vertex yielded once");
                assert!(want[u] != INF, "yielded vertex is reachable");
                assert!(want[u] >= last, "non-decreasing distance order");

                last = want[u];
                seen[u] = true;
            }
            None => break,
        }
    }

    assert!(it.next().is_none(), "exhausted after at most N items");

    for u in 0..N {
        assert!(seen[u] == (want[u] != INF), "yielded set = reachable set");
    }

    kani::cover!(seen[N - 1] && !src[N - 1], "a non-source is reached");
    core::mem::forget(it);
}

fn iter_dist_sparse<const N: usize, const M: usize>() {
    cx::set_vcap(N + M);

    let g = any_arcs::<N, M>(WMAX);
    let src = any_sources::<N>(2);
    let want = g.dense::<N>().dist(&src);
    let mut seen = [false; N];
    let mut last = 0;
    let mut it = DijkstraDist::new(&g, mask(src));

    for _ in 0..N {
        match it.next() {
            Some((u, d)) => {
                assert!(u < N, "yielded id in range");
                assert!(!seen[u], "vertex yielded once");
                assert!(d == want[u], "item carries the exact distance");
                assert!(d != INF, "yielded vertex is reachable");
                assert!(d >= last, "non-decreasing distance order");

                last = d;
                seen[u] = true;
            }
            None => break,
        }
    }

    assert!(it.next().is_none(), "exhausted after at most N items");

    for u in 0..N {
        assert!(seen[u] == (want[u] != INF), "yielded set = reachable set");
    }

    core::mem::forget(it);
}

/// The same through the real `AdjacencyListWeighted<usize>` (map model).
fn distances_repr<const N: usize, const M: usize>() {
    cx::set_vcap(N + M);

    let g = any_arcs::<N, M>(WMAX);
    let src = any_sources::<N>(2);
    let want = g.dense::<N>().dist(&src);
    let mut d = AdjacencyListWeighted::<usize>::empty(N);

    for i in 0..M {
        if i < g.m {
            let (u, v, w) = g.arcs[i];

            d.add_arc_weighted(u, v, w);
        }
    }

    let mut it = DijkstraDist::new(&d, mask(src));
    let dist = it.distances();

    for v in 0..N {
        assert!(dist[v] == want[v], "distances()[v] = min walk weight, MAX iff unreachable");
    }

    kani::cover!(want[N - 1] != INF && want[N - 1] > 0, "last vertex reached");
    core::mem::forget(dist);
    core::mem::forget(it);
    core::mem::forget(d);
}

/// One `next()` from an arbitrary state: `dist` arbitrary, heap = up to H
/// arbitrary entries. Whatever history led here:
/// * `Some(u)` => the popped key was minimal in the heap and equals dist[u];
/// * `None` => no entry with key == dist[vertex] (a vertex still to be
///   yielded) was left in the heap.
fn one_step<const N: usize, const H: usize>() {
    cx::set_vcap(H + N);

    let mut g = WG::<N, usize>::empty();

    for u in 0..N {
        for v in 0..N {
            if u != v && nd::bool() {
                g.w[u][v] = Some(nd::below(16));
            }
        }
    }

    let none: [bool; N] = [false; N];
    let mut it = DijkstraDist::new(&g, mask(none));
    let mut keys = [(0_usize, 0_usize); H];
    let h = nd::below(H + 1);

    for v in 0..N {
        it.dist[v] = nd::below(64);
    }

    let mut min_key = usize::MAX;

    for i in 0..H {
        if i < h {
            let k = nd::below(64);
            let v = nd::below(N);

            keys[i] = (k, v);
            it.heap.push((core::cmp::Reverse(k), v));

            if k < min_key {
                min_key = k;
            }
        }
    }

    let live_before = {
        let mut live = false;

        for i in 0..H {
            if i < h && keys[i].0 == it.dist[keys[i].1] {
                live = true;
            }
        }

        live
    };

    match it.next() {
        Some((u, d)) => {
            assert!(d == it.dist[u], "a yielded key equals the vertex's current distance");
            assert!(live_before, "Some only if a live entry existed");
        }
        None => {
            assert!(!live_before, "None only when no live (key == dist) entry is left in the heap");
        }
    }

    kani::cover!(h == H && live_before && min_key < it.dist[keys[0].1], "a stale minimum is popped before a live entry");
    core::mem::forget(it);
}

// DijkstraDist::distances over every simple digraph with <= 4 arcs on 4 vertices, weights < 16, <= 2 sources.
// @verif prop=C03 tier=exp fl=f2 role=distances/sparse t=3600 mem=30
#[cfg_attr(kani, kani::proof)]
#[cfg_attr(kani, kani::unwind(10))]
pub fn c03_distances_sparse_n4_m4() {
    distances_sparse::<4, 4>();
}

// Dijkstra iteration order/uniqueness, <= 4 arcs on 4 vertices.
// @verif prop=C03 tier=exp fl=f2 role=iter/sparse t=3600 mem=30
#[cfg_attr(kani, kani::proof)]
#[cfg_attr(kani, kani::unwind(10))]
pub fn c03_iter_sparse_n4_m4() {
    iter_sparse::<4, 4>();
}

// DijkstraDist iteration with exact distances, <= 4 arcs on 4 vertices.
// @verif prop=C03 tier=exp fl=f2 role=iter-dist/sparse t=3600 mem=30
#[cfg_attr(kani, kani::proof)]
#[cfg_attr(kani, kani::unwind(10))]
pub fn c03_iter_dist_sparse_n4_m4() {
    iter_dist_sparse::<4, 4>();
}

// The same through AdjacencyListWeighted<usize>, <= 3 arcs on 3 vertices.
// @verif prop=C03 tier=exp fl=f2 feat=map4 role=distances/repr t=3600 mem=30
#[cfg_attr(kani, kani::proof)]
#[cfg_attr(kani, kani::unwind(10))]
pub fn c03_distances_repr_n3_m3() {
    distances_repr::<3, 3>();
}

// One next() from an arbitrary (dist, heap) state, 3 vertices, <= 3 heap entries: no history bound.
// @verif prop=C03 tier=quick fl=f2 role=one-step t=1200 mem=14
#[cfg_attr(kani, kani::proof)]
#[cfg_attr(kani, kani::unwind(5))]
pub fn c03_one_step_n3_h3() {
    one_step::<3, 3>();
}

// @verif prop=C03 tier=exp fl=f2 role=distances/sparse t=3600 mem=24
#[cfg_attr(kani, kani::proof)]
#[cfg_attr(kani, kani::unwind(11))]
pub fn c03_distances_sparse_n4_m5() {
    distances_sparse::<4, 5>();
}

// @verif prop=C03 tier=thorough fl=f2 role=one-step t=3600 mem=16
#[cfg_attr(kani, kani::proof)]
#[cfg_attr(kani, kani::unwind(6))]
pub fn c03_one_step_n4_h4() {
    one_step::<4, 4>();
}

// @verif prop=C03 tier=exp fl=f2 role=distances/sparse t=3600 mem=30
#[cfg_attr(kani, kani::proof)]
#[cfg_attr(kani, kani::unwind(5))]
pub fn c03_distances_sparse_n3_m3() {
    distances_sparse::<3, 3>();
}

// ---------------------------------------------------------------------------
// Inductive form: base + one step from an ARBITRARY state satisfying the
// invariant. Covers histories of any length for the stated N (and pre-states
// with at most H heap entries).
// ---------------------------------------------------------------------------

/// Dense symbolic weights `< wmax` on N vertices.
pub fn any_dense<const N: usize>(wmax: usize) -> WG<N, usize> {
    let mut g = WG::<N, usize>::empty();

    for u in 0..N {
        for v in 0..N {
            if u != v && nd::bool() {
                g.w[u][v] = Some(nd::below(wmax));
            }
        }
    }

    g
}

/// One heap entry as the harness sees it: key, vertex, and (DijkstraPred
/// only) the predecessor carried by the entry.
#[derive(Clone, Copy)]
pub struct Entry {
    pub k: usize,
    pub v: usize,
    pub p: Option<usize>,
}

/// The Dijkstra invariant over (dist, heap entries, settled set), relative to
/// the source set and the true distances `delta`. `with_pred`: also the
/// predecessor clause of DijkstraPred entries.
pub fn invariant<const N: usize, const H: usize>(
    g: &WG<N, usize>,
    src: &[bool; N],
    delta: &[usize; N],
    dist: &[usize; N],
    entries: &[Entry; H],
    h: usize,
    settled: &[bool; N],
    bound: usize,
    with_pred: bool,
) -> bool {
    let mut ok = h <= H;

    for v in 0..N {
        // 1. never below the true distance; 7. finite values are bounded
        ok &= dist[v] >= delta[v];
        ok &= dist[v] == INF || dist[v] <= bound;

        // 2. sources are at distance 0
        if src[v] {
            ok &= dist[v] == 0;
        }

        let mut live = false;

        for i in 0..H {
            if i < h && entries[i].v == v && entries[i].k == dist[v] {
                live = true;
            }
        }

        if settled[v] {
            // 3. settled: exact, and all out-arcs relaxed; 6. no live entry
            ok &= dist[v] == delta[v] && delta[v] != INF;
            ok &= !live;

            for x in 0..N {
                if let Some(w) = g.w[v][x] {
                    ok &= dist[x] <= dist[v].saturating_add(w);
                }
            }
        } else if dist[v] != INF {
            // 4. discovered but unsettled: a live entry exists
            ok &= live;
        }
    }

    for i in 0..H {
        if i < h {
            let e = entries[i];

            // 5. keys are never below the vertex's distance nor below any
            //    settled distance
            ok &= e.v < N && e.k <= bound && e.k >= dist[e.v];

            for u in 0..N {
                if settled[u] {
                    ok &= e.k >= dist[u];
                }
            }

            // 9. entries of one vertex have pairwise distinct keys (a push
            //    happens only on a strict improvement), so at most one is live
            for j in 0..H {
                if j < i && entries[j].v == e.v {
                    ok &= entries[j].k != e.k;
                }
            }

            // 8. the predecessor carried by an entry explains its key
            if with_pred {
                match e.p {
                    None => ok &= src[e.v] && e.k == 0,
                    Some(x) => {
                        ok &= x < N && settled[x];

                        if x < N {
                            match g.w[x][e.v] {
                                Some(w) => ok &= e.k == dist[x].saturating_add(w),
                                None => ok = false,
                            }
                        }
                    }
                }
            }
        }
    }

    ok
}

fn read_heap_dist<const H: usize>(it: &DijkstraDist<'_, WG<3, usize>>) -> ([Entry; H], usize, bool) {
    let mut out = [Entry { k: 0, v: 0, p: None }; H];
    let mut n = 0;
    let mut overflow = false;

    for e in it.heap.iter() {
        if n < H {
            out[n] = Entry { k: (e.0).0, v: e.1, p: None };
            n += 1;
        } else {
            overflow = true;
        }
    }

    (out, n, overflow)
}

/// Base case: the state built by `DijkstraDist::new` satisfies the invariant
/// with nothing settled.
fn dist_base() {
    const N: usize = 3;

    cx::set_vcap(8);

    let g = any_dense::<N>(WMAX);
    let src: [bool; N] = nd::bools();
    let delta = g.dist(&src);
    let it = DijkstraDist::new(&g, mask(src));
    let (entries, h, overflow) = read_heap_dist::<4>(&it);
    let dist = [it.dist[0], it.dist[1], it.dist[2]];

    assert!(!overflow && it.dist.len() == N, "initial state shape");
    assert!(
        invariant::<N, 4>(&g, &src, &delta, &dist, &entries, h, &[false; N], N * WMAX, false),
        "the initial state satisfies the Dijkstra invariant"
    );
    kani::cover!(h == 3, "three sources");
    core::mem::forget(it);
}

/// Inductive step for DijkstraDist on 3 vertices: any pre-state satisfying the
/// invariant with at most H heap entries; one next(); the yield obligations
/// and the invariant of the post-state.
fn dist_step<const H: usize, const H2: usize>(wmax: usize) {
    const N: usize = 3;

    cx::set_vcap(H2.max(4));

    let g = any_dense::<N>(wmax);
    let src: [bool; N] = nd::bools();
    let delta = g.dist(&src);
    let bound = N * wmax;
    let mut it = DijkstraDist::new(&g, mask([false; N]));
    let mut dist = [INF; N];
    let settled: [bool; N] = nd::bools();
    let h = nd::below(H + 1);
    let mut entries = [Entry { k: 0, v: 0, p: None }; H];

    for v in 0..N {
        dist[v] = nd::usize();
        it.dist[v] = dist[v];
    }

    for i in 0..H {
        entries[i] = Entry { k: nd::usize(), v: nd::below(N), p: None };

        if i < h {
            it.heap.push((core::cmp::Reverse(entries[i].k), entries[i].v));
        }
    }

    kani::assume(invariant::<N, H>(&g, &src, &delta, &dist, &entries, h, &settled, bound, false));

    let r = it.next();
    let (post, h2, overflow) = read_heap_dist::<H2>(&it);
    let dist2 = [it.dist[0], it.dist[1], it.dist[2]];

    assert!(!overflow, "post-state heap fits the harness buffer");

    match r {
        Some((u, d)) => {
            assert!(u < N && !settled[u], "a vertex is yielded at most once");
            assert!(d == delta[u] && d != INF, "the item carries the exact distance of a reachable vertex");

            for x in 0..N {
                if settled[x] {
                    assert!(d >= dist[x], "non-decreasing distance order");
                }
            }

            let mut settled2 = settled;

            settled2[u] = true;

            assert!(
                invariant::<N, H2>(&g, &src, &delta, &dist2, &post, h2, &settled2, bound, false),
                "next() preserves the Dijkstra invariant"
            );
        }
        None => {
            for v in 0..N {
                assert!(dist2[v] == delta[v], "at exhaustion every distance is exact (MAX iff unreachable)");
                assert!(settled[v] == (delta[v] != INF), "at exhaustion exactly the reachable vertices were yielded");
            }
        }
    }

    kani::cover!(r.is_none() && settled[2] && !settled[0], "exhaustion with a partially reachable digraph");
    kani::cover!(r.is_some() && h == H && h2 >= h, "a step that pushes at least as many entries as it pops");
    core::mem::forget(it);
}

/// The same step for `Dijkstra` (items are bare vertices).
fn plain_step<const H: usize, const H2: usize>(wmax: usize) {
    const N: usize = 3;

    cx::set_vcap(H2.max(4));

    let g = any_dense::<N>(wmax);
    let src: [bool; N] = nd::bools();
    let delta = g.dist(&src);
    let bound = N * wmax;
    let mut it = Dijkstra::new(&g, mask([false; N]));
    let mut dist = [INF; N];
    let settled: [bool; N] = nd::bools();
    let h = nd::below(H + 1);
    let mut entries = [Entry { k: 0, v: 0, p: None }; H];

    for v in 0..N {
        dist[v] = nd::usize();
        it.dist[v] = dist[v];
    }

    for i in 0..H {
        entries[i] = Entry { k: nd::usize(), v: nd::below(N), p: None };

        if i < h {
            it.heap.push((core::cmp::Reverse(entries[i].k), entries[i].v));
        }
    }

    kani::assume(invariant::<N, H>(&g, &src, &delta, &dist, &entries, h, &settled, bound, false));

    let r = it.next();
    let mut post = [Entry { k: 0, v: 0, p: None }; H2];
    let mut h2 = 0;
    let mut overflow = false;

    for e in it.heap.iter() {
        if h2 < H2 {
            post[h2] = Entry { k: (e.0).0, v: e.1, p: None };
            h2 += 1;
        } else {
            overflow = true;
        }
    }

    let dist2 = [it.dist[0], it.dist[1], it.dist[2]];

    assert!(!overflow, "post-state heap fits the harness buffer");

    match r {
        Some(u) => {
            assert!(u < N && !settled[u], "a vertex is yielded at most once");
            assert!(dist2[u] == delta[u] && delta[u] != INF, "a yielded vertex is reachable and its distance is final");

            for x in 0..N {
                if settled[x] {
                    assert!(delta[u] >= dist[x], "non-decreasing distance order");
                }
            }

            let mut settled2 = settled;

            settled2[u] = true;

            assert!(
                invariant::<N, H2>(&g, &src, &delta, &dist2, &post, h2, &settled2, bound, false),
                "next() preserves the Dijkstra invariant"
            );
        }
        None => {
            for v in 0..N {
                assert!(settled[v] == (delta[v] != INF), "at exhaustion exactly the reachable vertices were yielded");
            }
        }
    }

    kani::cover!(r.is_some() && h == H, "a step from a full pre-state");
    core::mem::forget(it);
}

/// distances() is the fold of the yielded items into a MAX-initialised
/// vector: whole run on 2 vertices.
fn distances_wrapper_n2() {
    const N: usize = 2;

    cx::set_vcap(6);

    let g = any_dense::<N>(WMAX);
    let src: [bool; N] = nd::bools();
    let delta = g.dist(&src);
    let mut it = DijkstraDist::new(&g, mask(src));
    let d = it.distances();

    assert!(d.len() == N, "one entry per vertex");

    for v in 0..N {
        assert!(d[v] == delta[v], "distances()[v] = min walk weight, MAX iff unreachable");
    }

    kani::cover!(delta[1] != INF && delta[1] > 0, "vertex 1 reached over an arc");
    core::mem::forget(d);
    core::mem::forget(it);
}

// Base case of the induction: DijkstraDist::new establishes the invariant (3 vertices, any sources, weights < 2^62).
// @verif prop=C03 tier=quick fl=f2 role=inductive/base t=1200 mem=14
#[cfg_attr(kani, kani::proof)]
#[cfg_attr(kani, kani::unwind(6))]
pub fn c03_dist_base_n3() {
    dist_base();
}

// Inductive step of DijkstraDist::next from ANY invariant state (3 vertices, <= 3 heap entries, weights < 2^62): covers histories of any length.
// @verif prop=C03 tier=thorough fl=f2 feat=cap4 role=inductive/dist-step t=3600 mem=16
#[cfg_attr(kani, kani::proof)]
#[cfg_attr(kani, kani::unwind(6))]
pub fn c03_dist_step_n3_h3() {
    dist_step::<3, 4>(WMAX);
}

// The same step with weights < 256 (cheaper query; same structure).
// @verif prop=C03 tier=quick fl=f2 feat=cap4 role=inductive/dist-step-small t=1800 mem=20
#[cfg_attr(kani, kani::proof)]
#[cfg_attr(kani, kani::unwind(6))]
pub fn c03_dist_step_small_n3_h3() {
    dist_step::<3, 4>(256);
}

// Inductive step of Dijkstra::next from any invariant state (3 vertices, <= 3 heap entries).
// @verif prop=C03 tier=quick fl=f2 feat=cap4 role=inductive/plain-step t=3000 mem=20
#[cfg_attr(kani, kani::proof)]
#[cfg_attr(kani, kani::unwind(6))]
pub fn c03_plain_step_n3_h3() {
    plain_step::<3, 4>(256);
}

// distances() wrapper, whole run, 2 vertices.
// @verif prop=C03 tier=exp fl=f2 role=distances/whole-run-n2 t=3600 mem=30
#[cfg_attr(kani, kani::proof)]
#[cfg_attr(kani, kani::unwind(5))]
pub fn c03_distances_wrapper_n2() {
    distances_wrapper_n2();
}

// @verif prop=C03 tier=exp fl=f2 role=inductive/dist-step t=3600 mem=30
#[cfg_attr(kani, kani::proof)]
#[cfg_attr(kani, kani::unwind(8))]
pub fn c03_dist_step_n3_h5() {
    dist_step::<5, 7>(WMAX);
}
