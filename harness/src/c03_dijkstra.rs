//! C03 — Dijkstra reports exact shortest distances and visits each reachable
//! vertex once.

use {
    crate::{
        cx,
        nd,
        oracle::{
            mask,
            AL,
            INF,
            WG,
        },
    },
    graaf::{
        AddArcWeighted,
        AdjacencyListWeighted,
        Dijkstra,
        DijkstraDist,
        Empty,
    },
};

#[cfg(not(kani))]
use crate::kani;

/// Weights range over 0..2^62: with at most 3 arcs on a shortest path every
/// path sum (and every sum Dijkstra or the reference forms) stays below 2^64,
/// so "path sums fit in usize" holds, while distances >= usize::MAX / 2 occur.
pub const WMAX: usize = 1 << 62;

/// Every simple arc-weighted digraph on N vertices with at most M arcs and
/// weights < WMAX (zero included), as a symbolic arc list.
pub fn any_arcs<const N: usize, const M: usize>(wmax: usize) -> AL<M, usize> {
    let m = nd::below(M + 1);
    let mut arcs = [(0_usize, 0_usize, 0_usize); M];

    for i in 0..M {
        let u = nd::below(N);
        let v = nd::below(N);
        let w = nd::below(wmax);

        arcs[i] = (u, v, w);
    }

    let g = AL { n: N, m, arcs };

    kani::assume(g.is_simple());

    g
}

/// Source sets with at most `kmax` sources (distinct by construction).
pub fn any_sources<const N: usize>(kmax: usize) -> [bool; N] {
    let src: [bool; N] = nd::bools();
    let mut k = 0;

    for s in 0..N {
        if src[s] {
            k += 1;
        }
    }

    kani::assume(k <= kmax);

    src
}

fn distances_sparse<const N: usize, const M: usize>() {
    cx::set_vcap(N + M);

    let g = any_arcs::<N, M>(WMAX);
    let src = any_sources::<N>(2);
    let want = g.dense::<N>().dist(&src);
    let mut it = DijkstraDist::new(&g, mask(src));
    let d = it.distances();

    assert!(d.len() == N, "one entry per vertex");

    for v in 0..N {
        assert!(d[v] == want[v], "distances()[v] = min walk weight, MAX iff unreachable");
    }

    kani::cover!(want[N - 1] == INF, "an unreachable vertex");
    kani::cover!(g.m == M && want[N - 1] != INF && want[N - 1] > 0, "all arcs live, last vertex reached");
    core::mem::forget(d);
    core::mem::forget(it);
}

fn iter_sparse<const N: usize, const M: usize>() {
    cx::set_vcap(N + M);

    let g = any_arcs::<N, M>(WMAX);
    let src = any_sources::<N>(2);
    let want = g.dense::<N>().dist(&src);
    let mut seen = [false; N];
    let mut last = 0;
    let mut it = Dijkstra::new(&g, mask(src));

    for _ in 0..N {
        match it.next() {
            Some(u) => {
                assert!(u < N, "yielded id in range");
                assert!(!seen[u], "vertex yielded once");
                assert!(want[u] != INF, "yielded vertex is reachable");
                assert!(want[u] >= last, "non-decreasing distance order");

                last = want[u];
                seen[u] = true;
            }
            None => break,
        }
    }

    assert!(it.next().is_none(), "exhausted after at most N items");

    for u in 0..N {
        assert!(seen[u] == (want[u] != INF), "yielded set = reachable set");
    }

    kani::cover!(seen[N - 1] && !src[N - 1], "a non-source is reached");
    core::mem::forget(it);
}

fn iter_dist_sparse<const N: usize, const M: usize>() {
    cx::set_vcap(N + M);

    let g = any_arcs::<N, M>(WMAX);
    let src = any_sources::<N>(2);
    let want = g.dense::<N>().dist(&src);
    let mut seen = [false; N];
    let mut last = 0;
    let mut it = DijkstraDist::new(&g, mask(src));

    for _ in 0..N {
        match it.next() {
            Some((u, d)) => {
                assert!(u < N, "yielded id in range");
                assert!(!seen[u], "vertex yielded once");
                assert!(d == want[u], "item carries the exact distance");
                assert!(d != INF, "yielded vertex is reachable");
                assert!(d >= last, "non-decreasing distance order");

                last = d;
                seen[u] = true;
            }
            None => break,
        }
    }

    assert!(it.next().is_none(), "exhausted after at most N items");

    for u in 0..N {
        assert!(seen[u] == (want[u] != INF), "yielded set = reachable set");
    }

    core::mem::forget(it);
}

/// The same through the real `AdjacencyListWeighted<usize>` (map model).
fn distances_repr<const N: usize, const M: usize>() {
    cx::set_vcap(N + M);

    let g = any_arcs::<N, M>(WMAX);
    let src = any_sources::<N>(2);
    let want = g.dense::<N>().dist(&src);
    let mut d = AdjacencyListWeighted::<usize>::empty(N);

    for i in 0..M {
        if i < g.m {
            let (u, v, w) = g.arcs[i];

            d.add_arc_weighted(u, v, w);
        }
    }

    let mut it = DijkstraDist::new(&d, mask(src));
    let dist = it.distances();

    for v in 0..N {
        assert!(dist[v] == want[v], "distances()[v] = min walk weight, MAX iff unreachable");
    }

    kani::cover!(want[N - 1] != INF && want[N - 1] > 0, "last vertex reached");
    core::mem::forget(dist);
    core::mem::forget(it);
    core::mem::forget(d);
}

/// One `next()` from an arbitrary state: `dist` arbitrary, heap = up to H
/// arbitrary entries. Whatever history led here:
/// * `Some(u)` => the popped key was minimal in the heap and equals dist[u];
/// * `None` => no entry with key == dist[vertex] (a vertex still to be
///   yielded) was left in the heap.
fn one_step<const N: usize, const H: usize>() {
    cx::set_vcap(H + N);

    let mut g = WG::<N, usize>::empty();

    for u in 0..N {
        for v in 0..N {
            if u != v && nd::bool() {
                g.w[u][v] = Some(nd::below(16));
            }
        }
    }

    let none: [bool; N] = [false; N];
    let mut it = DijkstraDist::new(&g, mask(none));
    let mut keys = [(0_usize, 0_usize); H];
    let h = nd::below(H + 1);

    for v in 0..N {
        it.dist[v] = nd::below(64);
    }

    let mut min_key = usize::MAX;

    for i in 0..H {
        if i < h {
            let k = nd::below(64);
            let v = nd::below(N);

            keys[i] = (k, v);
            it.heap.push((core::cmp::Reverse(k), v));

            if k < min_key {
                min_key = k;
            }
        }
    }

    let live_before = {
        let mut live = false;

        for i in 0..H {
            if i < h && keys[i].0 == it.dist[keys[i].1] {
                live = true;
            }
        }

        live
    };

    match it.next() {
        Some((u, d)) => {
            assert!(d == it.dist[u], "a yielded key equals the vertex's current distance");
            assert!(live_before, "Some only if a live entry existed");
        }
        None => {
            assert!(!live_before, "None only when no live (key == dist) entry is left in the heap");
        }
    }

    kani::cover!(h == H && live_before && min_key < it.dist[keys[0].1], "a stale minimum is popped before a live entry");
    core::mem::forget(it);
}

// DijkstraDist::distances over every simple digraph with <= 4 arcs on 4 vertices, weights < 16, <= 2 sources.
// @verif prop=C03 tier=quick fl=f2 role=distances/sparse t=1200 mem=14
#[cfg_attr(kani, kani::proof)]
#[cfg_attr(kani, kani::unwind(10))]
pub fn c03_distances_sparse_n4_m4() {
    distances_sparse::<4, 4>();
}

// Dijkstra iteration order/uniqueness, <= 4 arcs on 4 vertices.
// @verif prop=C03 tier=quick fl=f2 role=iter/sparse t=1200 mem=14
#[cfg_attr(kani, kani::proof)]
#[cfg_attr(kani, kani::unwind(10))]
pub fn c03_iter_sparse_n4_m4() {
    iter_sparse::<4, 4>();
}

// DijkstraDist iteration with exact distances, <= 4 arcs on 4 vertices.
// @verif prop=C03 tier=quick fl=f2 role=iter-dist/sparse t=1200 mem=14
#[cfg_attr(kani, kani::proof)]
#[cfg_attr(kani, kani::unwind(10))]
pub fn c03_iter_dist_sparse_n4_m4() {
    iter_dist_sparse::<4, 4>();
}

// The same through AdjacencyListWeighted<usize>, <= 3 arcs on 3 vertices.
// @verif prop=C03 tier=quick fl=f2 role=distances/repr t=1200 mem=14
#[cfg_attr(kani, kani::proof)]
#[cfg_attr(kani, kani::unwind(10))]
pub fn c03_distances_repr_n3_m3() {
    distances_repr::<3, 3>();
}

// One next() from an arbitrary (dist, heap) state, 3 vertices, <= 3 heap entries: no history bound.
// @verif prop=C03 tier=quick fl=f2 role=one-step t=1200 mem=14
#[cfg_attr(kani, kani::proof)]
#[cfg_attr(kani, kani::unwind(5))]
pub fn c03_one_step_n3_h3() {
    one_step::<3, 3>();
}

// @verif prop=C03 tier=thorough fl=f2 role=distances/sparse t=3600 mem=24
#[cfg_attr(kani, kani::proof)]
#[cfg_attr(kani, kani::unwind(11))]
pub fn c03_distances_sparse_n4_m5() {
    distances_sparse::<4, 5>();
}

// @verif prop=C03 tier=thorough fl=f2 role=one-step t=3600 mem=24
#[cfg_attr(kani, kani::proof)]
#[cfg_attr(kani, kani::unwind(6))]
pub fn c03_one_step_n4_h4() {
    one_step::<4, 4>();
}

// @verif prop=C03 tier=quick fl=f2 role=distances/sparse t=1200 mem=14
#[cfg_attr(kani, kani::proof)]
#[cfg_attr(kani, kani::unwind(5))]
pub fn c03_distances_sparse_n3_m3() {
    distances_sparse::<3, 3>();
}
