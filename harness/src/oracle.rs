//! Reference definitions over fixed-size arrays. Nothing here calls into
//! graaf's representations or algorithms; the only graaf items used are the
//! public *traits*, implemented for the array digraphs so that graaf's generic
//! algorithms can run on them.

use graaf::{
    Arcs,
    ArcsWeighted,
    ContiguousOrder,
    HasArc,
    Indegree,
    Order,
    OutNeighbors,
    OutNeighborsWeighted,
    Outdegree,
    Size,
    Vertices,
};

pub const INF: usize = usize::MAX;
pub const IINF: isize = isize::MAX;

/// Simple digraph on `0..N` as an adjacency bit matrix (diagonal false).
#[derive(Clone, Copy, Debug, PartialEq, Eq)]
pub struct G<const N: usize> {
    pub a: [[bool; N]; N],
}

impl<const N: usize> G<N> {
    #[must_use]
    pub const fn empty() -> Self {
        Self { a: [[false; N]; N] }
    }

    /// Every simple digraph on N vertices: N(N-1) symbolic bits.
    #[must_use]
    pub fn any() -> Self {
        let mut a = [[false; N]; N];
        let mut u = 0;

        while u < N {
            let mut v = 0;

            while v < N {
                if u != v {
                    a[u][v] = crate::nd::bool();
                }

                v += 1;
            }

            u += 1;
        }

        Self { a }
    }

    #[must_use]
    pub fn size(&self) -> usize {
        let mut n = 0;

        for u in 0..N {
            for v in 0..N {
                if self.a[u][v] {
                    n += 1;
                }
            }
        }

        n
    }

    #[must_use]
    pub fn outdeg(&self, u: usize) -> usize {
        let mut n = 0;

        for v in 0..N {
            if self.a[u][v] {
                n += 1;
            }
        }

        n
    }

    #[must_use]
    pub fn indeg(&self, v: usize) -> usize {
        let mut n = 0;

        for u in 0..N {
            if self.a[u][v] {
                n += 1;
            }
        }

        n
    }

    /// `r[u][v]`: there is a walk of length >= 0 from u to v.
    #[must_use]
    pub fn reach_matrix(&self) -> [[bool; N]; N] {
        let mut r = self.a;

        for u in 0..N {
            r[u][u] = true;
        }

        for k in 0..N {
            for i in 0..N {
                for j in 0..N {
                    if r[i][k] && r[k][j] {
                        r[i][j] = true;
                    }
                }
            }
        }

        r
    }

    /// Hop distance from the nearest source (`INF` = unreachable), by N
    /// rounds of relaxation.
    #[must_use]
    pub fn hop(&self, src: &[bool; N]) -> [usize; N] {
        let mut d = [INF; N];

        for s in 0..N {
            if src[s] {
                d[s] = 0;
            }
        }

        for _round in 0..N {
            for u in 0..N {
                if d[u] != INF {
                    for v in 0..N {
                        if self.a[u][v] && d[u] + 1 < d[v] {
                            d[v] = d[u] + 1;
                        }
                    }
                }
            }
        }

        d
    }

    #[must_use]
    pub fn reach(&self, src: &[bool; N]) -> [bool; N] {
        let d = self.hop(src);
        let mut r = [false; N];

        for v in 0..N {
            r[v] = d[v] != INF;
        }

        r
    }
}

/// Ascending iterator over the set positions of a bool array.
#[derive(Clone, Copy, Debug)]
pub struct Mask<const N: usize> {
    pub bits: [bool; N],
    pub i: usize,
}

impl<const N: usize> Iterator for Mask<N> {
    type Item = usize;

    #[inline]
    fn next(&mut self) -> Option<usize> {
        while self.i < N {
            let i = self.i;

            self.i += 1;

            if self.bits[i] {
                return Some(i);
            }
        }

        None
    }
}

#[must_use]
pub const fn mask<const N: usize>(bits: [bool; N]) -> Mask<N> {
    Mask { bits, i: 0 }
}

impl<const N: usize> Order for G<N> {
    fn order(&self) -> usize {
        N
    }
}

impl<const N: usize> ContiguousOrder for G<N> {
    fn contiguous_order(&self) -> usize {
        N
    }
}

impl<const N: usize> Vertices for G<N> {
    fn vertices(&self) -> impl Iterator<Item = usize> {
        0..N
    }
}

impl<const N: usize> OutNeighbors for G<N> {
    fn out_neighbors(&self, u: usize) -> impl Iterator<Item = usize> {
        assert!(u < N, "u isn't in the digraph");

        mask(self.a[u])
    }
}

impl<const N: usize> HasArc for G<N> {
    fn has_arc(&self, u: usize, v: usize) -> bool {
        u < N && v < N && self.a[u][v]
    }
}

pub struct GArcs<'a, const N: usize> {
    a: &'a [[bool; N]; N],
    u: usize,
    v: usize,
}

impl<const N: usize> Iterator for GArcs<'_, N> {
    type Item = (usize, usize);

    #[inline]
    fn next(&mut self) -> Option<(usize, usize)> {
        while self.u < N {
            while self.v < N {
                let v = self.v;

                self.v += 1;

                if self.a[self.u][v] {
                    return Some((self.u, v));
                }
            }

            self.v = 0;
            self.u += 1;
        }

        None
    }
}

impl<const N: usize> Arcs for G<N> {
    fn arcs(&self) -> impl Iterator<Item = (usize, usize)> {
        GArcs {
            a: &self.a,
            u: 0,
            v: 0,
        }
    }
}

impl<const N: usize> Size for G<N> {
    fn size(&self) -> usize {
        G::size(self)
    }
}

impl<const N: usize> Indegree for G<N> {
    fn indegree(&self, v: usize) -> usize {
        assert!(v < N, "v isn't in the digraph");

        self.indeg(v)
    }
}

impl<const N: usize> Outdegree for G<N> {
    fn outdegree(&self, u: usize) -> usize {
        assert!(u < N, "u isn't in the digraph");

        self.outdeg(u)
    }
}

/// Arc-weighted digraph on `0..N`: `w[u][v]` is the weight of arc u->v.
#[derive(Clone, Copy, Debug, PartialEq, Eq)]
pub struct WG<const N: usize, W> {
    pub w: [[Option<W>; N]; N],
}

impl<const N: usize, W: Copy> WG<N, W> {
    #[must_use]
    pub fn empty() -> Self {
        Self {
            w: [[None; N]; N],
        }
    }
}

impl<const N: usize> WG<N, usize> {
    /// Shortest distances from the source set by N rounds of relaxation
    /// (non-negative weights).
    #[must_use]
    pub fn dist(&self, src: &[bool; N]) -> [usize; N] {
        let mut d = [INF; N];

        for s in 0..N {
            if src[s] {
                d[s] = 0;
            }
        }

        for _round in 0..N {
            for u in 0..N {
                if d[u] != INF {
                    for v in 0..N {
                        if let Some(w) = self.w[u][v] {
                            if d[u] + w < d[v] {
                                d[v] = d[u] + w;
                            }
                        }
                    }
                }
            }
        }

        d
    }
}

impl<const N: usize> WG<N, isize> {
    /// `(d, neg)`: Bellman-Ford reference. `d` after N-1 rounds from `s`;
    /// `neg` iff one more round still improves (a negative circuit is
    /// reachable from `s`).
    #[must_use]
    pub fn bf(&self, s: usize) -> ([isize; N], bool) {
        let mut d = [IINF; N];

        d[s] = 0;

        for _round in 1..N {
            for u in 0..N {
                for v in 0..N {
                    if let Some(w) = self.w[u][v] {
                        if d[u] != IINF && d[u] + w < d[v] {
                            d[v] = d[u] + w;
                        }
                    }
                }
            }
        }

        let mut neg = false;

        for u in 0..N {
            for v in 0..N {
                if let Some(w) = self.w[u][v] {
                    if d[u] != IINF && d[u] + w < d[v] {
                        neg = true;
                    }
                }
            }
        }

        (d, neg)
    }

    /// All-pairs min-plus closure (valid when there is no negative circuit);
    /// second component: some diagonal entry is negative (negative circuit).
    #[must_use]
    pub fn apsp(&self) -> ([[isize; N]; N], bool) {
        let mut d = [[IINF; N]; N];

        for u in 0..N {
            for v in 0..N {
                if let Some(w) = self.w[u][v] {
                    d[u][v] = w;
                }
            }

            if d[u][u] > 0 {
                d[u][u] = 0;
            }
        }

        for k in 0..N {
            for i in 0..N {
                for j in 0..N {
                    if d[i][k] != IINF && d[k][j] != IINF {
                        let s = d[i][k] + d[k][j];

                        if s < d[i][j] {
                            d[i][j] = s;
                        }
                    }
                }
            }
        }

        let mut neg = false;

        for u in 0..N {
            if d[u][u] < 0 {
                neg = true;
            }
        }

        (d, neg)
    }
}

impl<const N: usize, W> Order for WG<N, W> {
    fn order(&self) -> usize {
        N
    }
}

impl<const N: usize, W> ContiguousOrder for WG<N, W> {
    fn contiguous_order(&self) -> usize {
        N
    }
}

impl<const N: usize, W> Vertices for WG<N, W> {
    fn vertices(&self) -> impl Iterator<Item = usize> {
        0..N
    }
}

/// Hand-written iterators (no `std` adaptor chains: they are cheaper to
/// encode).
pub struct RowIter<'a, const N: usize, W> {
    row: &'a [Option<W>; N],
    v: usize,
}

impl<'a, const N: usize, W> Iterator for RowIter<'a, N, W> {
    type Item = (usize, &'a W);

    #[inline]
    fn next(&mut self) -> Option<Self::Item> {
        while self.v < N {
            let v = self.v;

            self.v += 1;

            if let Some(w) = self.row[v].as_ref() {
                return Some((v, w));
            }
        }

        None
    }
}

pub struct AllIter<'a, const N: usize, W> {
    w: &'a [[Option<W>; N]; N],
    u: usize,
    v: usize,
}

impl<'a, const N: usize, W> Iterator for AllIter<'a, N, W> {
    type Item = (usize, usize, &'a W);

    #[inline]
    fn next(&mut self) -> Option<Self::Item> {
        while self.u < N {
            while self.v < N {
                let v = self.v;

                self.v += 1;

                if let Some(w) = self.w[self.u][v].as_ref() {
                    return Some((self.u, v, w));
                }
            }

            self.v = 0;
            self.u += 1;
        }

        None
    }
}

impl<const N: usize, W> OutNeighborsWeighted for WG<N, W> {
    type Weight = W;

    fn out_neighbors_weighted(
        &self,
        u: usize,
    ) -> impl Iterator<Item = (usize, &W)> {
        assert!(u < N, "u isn't in the digraph");

        RowIter {
            row: &self.w[u],
            v: 0,
        }
    }
}

impl<const N: usize, W> ArcsWeighted for WG<N, W> {
    type Weight = W;

    fn arcs_weighted(&self) -> impl Iterator<Item = (usize, usize, &W)> {
        AllIter {
            w: &self.w,
            u: 0,
            v: 0,
        }
    }
}

/// Sparse arc-weighted digraph: up to `M` arcs `(u, v, w)` of which the
/// first `m` are live. Used where a dense symbolic weight matrix is too
/// expensive.
#[derive(Clone, Copy, Debug)]
pub struct AL<const M: usize, W> {
    pub n: usize,
    pub m: usize,
    pub arcs: [(usize, usize, W); M],
}

impl<const M: usize, W: Copy> AL<M, W> {
    /// Dense view (last arc wins among duplicates; the harness assumes there
    /// are none).
    #[must_use]
    pub fn dense<const N: usize>(&self) -> WG<N, W> {
        let mut g = WG::<N, W>::empty();

        for i in 0..M {
            if i < self.m {
                let (u, v, w) = self.arcs[i];

                g.w[u][v] = Some(w);
            }
        }

        g
    }

    /// `u != v`, both `< n`, no two live arcs with the same endpoints.
    #[must_use]
    pub fn is_simple(&self) -> bool {
        if self.m > M {
            return false;
        }

        for i in 0..M {
            if i < self.m {
                let (u, v, _) = self.arcs[i];

                if u == v || u >= self.n || v >= self.n {
                    return false;
                }

                for j in 0..M {
                    if j < i
                        && self.arcs[j].0 == u
                        && self.arcs[j].1 == v
                    {
                        return false;
                    }
                }
            }
        }

        true
    }
}

impl<const M: usize, W> Order for AL<M, W> {
    fn order(&self) -> usize {
        self.n
    }
}

impl<const M: usize, W> ContiguousOrder for AL<M, W> {
    fn contiguous_order(&self) -> usize {
        self.n
    }
}

impl<const M: usize, W> Vertices for AL<M, W> {
    fn vertices(&self) -> impl Iterator<Item = usize> {
        0..self.n
    }
}

pub struct ALIter<'a, const M: usize, W> {
    g: &'a AL<M, W>,
    from: Option<usize>,
    i: usize,
}

impl<'a, const M: usize, W> ALIter<'a, M, W> {
    #[inline]
    fn step(&mut self) -> Option<&'a (usize, usize, W)> {
        while self.i < M && self.i < self.g.m {
            let a = &self.g.arcs[self.i];

            self.i += 1;

            match self.from {
                Some(u) if a.0 != u => {}
                _ => return Some(a),
            }
        }

        None
    }
}

pub struct ALOut<'a, const M: usize, W>(ALIter<'a, M, W>);
pub struct ALAll<'a, const M: usize, W>(ALIter<'a, M, W>);

impl<'a, const M: usize, W> Iterator for ALOut<'a, M, W> {
    type Item = (usize, &'a W);

    #[inline]
    fn next(&mut self) -> Option<Self::Item> {
        self.0.step().map(|a| (a.1, &a.2))
    }
}

impl<'a, const M: usize, W> Iterator for ALAll<'a, M, W> {
    type Item = (usize, usize, &'a W);

    #[inline]
    fn next(&mut self) -> Option<Self::Item> {
        self.0.step().map(|a| (a.0, a.1, &a.2))
    }
}

impl<const M: usize, W> OutNeighborsWeighted for AL<M, W> {
    type Weight = W;

    fn out_neighbors_weighted(
        &self,
        u: usize,
    ) -> impl Iterator<Item = (usize, &W)> {
        assert!(u < self.n, "u isn't in the digraph");

        ALOut(ALIter {
            g: self,
            from: Some(u),
            i: 0,
        })
    }
}

impl<const M: usize, W> ArcsWeighted for AL<M, W> {
    type Weight = W;

    fn arcs_weighted(&self) -> impl Iterator<Item = (usize, usize, &W)> {
        ALAll(ALIter {
            g: self,
            from: None,
            i: 0,
        })
    }
}

/// Digraph with an explicit vertex set within `0..N` (possibly
/// non-contiguous); arcs only between vertices.
#[derive(Clone, Copy, Debug, PartialEq, Eq)]
pub struct GV<const N: usize> {
    pub v: [bool; N],
    pub a: [[bool; N]; N],
}

impl<const N: usize> GV<N> {
    #[must_use]
    pub fn any() -> Self {
        let v: [bool; N] = crate::nd::bools();
        let mut a = [[false; N]; N];

        for x in 0..N {
            for y in 0..N {
                if x != y && v[x] && v[y] {
                    a[x][y] = crate::nd::bool();
                }
            }
        }

        Self { v, a }
    }
}

impl<const N: usize> Order for GV<N> {
    fn order(&self) -> usize {
        let mut n = 0;

        for u in 0..N {
            if self.v[u] {
                n += 1;
            }
        }

        n
    }
}

impl<const N: usize> Size for GV<N> {
    fn size(&self) -> usize {
        let mut n = 0;

        for u in 0..N {
            for v in 0..N {
                if self.a[u][v] {
                    n += 1;
                }
            }
        }

        n
    }
}

impl<const N: usize> Vertices for GV<N> {
    fn vertices(&self) -> impl Iterator<Item = usize> {
        mask(self.v)
    }
}

impl<const N: usize> HasArc for GV<N> {
    fn has_arc(&self, u: usize, v: usize) -> bool {
        u < N && v < N && self.a[u][v]
    }
}

impl<const N: usize> Arcs for GV<N> {
    fn arcs(&self) -> impl Iterator<Item = (usize, usize)> {
        GArcs {
            a: &self.a,
            u: 0,
            v: 0,
        }
    }
}
