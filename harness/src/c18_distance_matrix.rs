//! C18 — DistanceMatrix metrics equal their definitions for every matrix.

use {
    crate::{
        cx,
        nd,
    },
    graaf::DistanceMatrix,
};

#[cfg(not(kani))]
use crate::kani;

/// Weight types of the two claimed instantiations.
pub trait W: Copy + Ord {
    fn any() -> Self;
}

impl W for usize {
    fn any() -> Self {
        nd::usize()
    }
}

impl W for isize {
    fn any() -> Self {
        nd::isize()
    }
}

macro_rules! dm_harness {
    ($name:ident, $w:ty, $n:expr) => {
        fn $name() {
            const N: usize = $n;

            cx::set_vcap(N * N);

            let inf: $w = <$w as crate::c18_distance_matrix::W>::any();
            let mut m = DistanceMatrix::<$w>::new(N, inf);

            assert!(m.order == N, "order recorded");
            assert!(m.dist.len() == N * N, "order x order entries");

            for u in 0..N {
                for v in 0..N {
                    assert!(m[(u, v)] == inf, "new() fills with infinity");
                }
            }

            // every matrix with entries <= infinity
            let mut a = [[inf; N]; N];

            for u in 0..N {
                for v in 0..N {
                    let x: $w = <$w as crate::c18_distance_matrix::W>::any();

                    kani::assume(x <= inf);

                    a[u][v] = x;
                    m[(u, v)] = x;
                }
            }

            for u in 0..N {
                for v in 0..N {
                    assert!(m[(u, v)] == a[u][v], "(u, v) addresses row u, column v");
                    assert!(m[u * N + v] == a[u][v], "row-major layout");
                }
            }

            // definitions
            let mut ecc = [inf; N];

            for u in 0..N {
                let mut e = a[u][0];

                for v in 0..N {
                    if a[u][v] > e {
                        e = a[u][v];
                    }
                }

                ecc[u] = e;
            }

            let mut diam = ecc[0];
            let mut rad = ecc[0];

            for u in 0..N {
                if ecc[u] > diam {
                    diam = ecc[u];
                }

                if ecc[u] < rad {
                    rad = ecc[u];
                }
            }

            // eccentricities
            let mut k = 0;

            for e in m.eccentricities() {
                assert!(k < N, "one eccentricity per vertex");
                assert!(*e == ecc[k], "eccentricity = row maximum");

                k += 1;
            }

            assert!(k == N, "one eccentricity per vertex");
            assert!(*m.diameter() == diam, "diameter = max eccentricity");

            let mut conn = true;

            for u in 0..N {
                if ecc[u] == inf {
                    conn = false;
                }
            }

            assert!(m.is_connected() == conn, "connected iff no infinite eccentricity");

            // center: ascending list of vertices with minimal eccentricity
            let c = m.center();
            let mut j = 0;

            for u in 0..N {
                if ecc[u] == rad {
                    assert!(j < c.len() && c[j] == u, "center lists every minimal vertex ascending");

                    j += 1;
                }
            }

            assert!(j == c.len(), "center lists nothing else");

            // periphery
            let mut j = 0;
            let mut per = m.periphery();

            for u in 0..N {
                if ecc[u] == diam {
                    assert!(per.next() == Some(u), "periphery lists every maximal vertex ascending");

                    j += 1;
                }
            }

            assert!(per.next().is_none(), "periphery lists nothing else");

            kani::cover!(rad == inf, "all-infinite matrix");
            kani::cover!(N < 2 || j > 1, "tie in the periphery");
            kani::cover!(N < 2 || (c.len() > 1 && rad != inf), "tie in the center");
            kani::cover!(N < 2 || (conn && rad != diam), "connected with distinct radius and diameter");
            core::mem::forget(c);
        }
    };
}

dm_harness!(dm_usize_3, usize, 3);
dm_harness!(dm_isize_3, isize, 3);
dm_harness!(dm_usize_1, usize, 1);
dm_harness!(dm_isize_2, isize, 2);
dm_harness!(dm_usize_2, usize, 2);
dm_harness!(dm_usize_4, usize, 4);
dm_harness!(dm_isize_4, isize, 4);

// @verif prop=C18 tier=exp fl=f2 role=metrics/usize t=3600 mem=24
#[cfg_attr(kani, kani::proof)]
#[cfg_attr(kani, kani::unwind(11))]
pub fn c18_metrics_usize_n3() {
    dm_usize_3();
}

// @verif prop=C18 tier=thorough fl=f2 role=metrics/isize t=3600 mem=16
#[cfg_attr(kani, kani::proof)]
#[cfg_attr(kani, kani::unwind(11))]
pub fn c18_metrics_isize_n3() {
    dm_isize_3();
}

// @verif prop=C18 tier=quick fl=f2 role=metrics/usize t=600 mem=10
#[cfg_attr(kani, kani::proof)]
#[cfg_attr(kani, kani::unwind(4))]
pub fn c18_metrics_usize_n1() {
    dm_usize_1();
}

// @verif prop=C18 tier=quick fl=f2 role=metrics/usize t=600 mem=10
#[cfg_attr(kani, kani::proof)]
#[cfg_attr(kani, kani::unwind(6))]
pub fn c18_metrics_usize_n2() {
    dm_usize_2();
}

// @verif prop=C18 tier=quick fl=f2 role=metrics/isize t=600 mem=10
#[cfg_attr(kani, kani::proof)]
#[cfg_attr(kani, kani::unwind(6))]
pub fn c18_metrics_isize_n2() {
    dm_isize_2();
}

// @verif prop=C18 tier=exp fl=f2 role=metrics/usize t=3600 mem=24
#[cfg_attr(kani, kani::proof)]
#[cfg_attr(kani, kani::unwind(18))]
pub fn c18_metrics_usize_n4() {
    dm_usize_4();
}

// @verif prop=C18 tier=exp fl=f2 role=metrics/isize t=3600 mem=24
#[cfg_attr(kani, kani::proof)]
#[cfg_attr(kani, kani::unwind(18))]
pub fn c18_metrics_isize_n4() {
    dm_isize_4();
}
