//! C20 — equality, ordering, hashing and cloning respect the abstract
//! digraph.
//!
//! Two arbitrary digraphs g1, g2 on N vertices are materialised through two
//! *different* construction histories (g1: arcs added in ascending order;
//! g2: the complete digraph first, then the missing arcs removed — for the
//! matrix additionally toggled off), so that any residue a history leaves
//! behind (stale bits, empty rows, order fields) shows up as an inequality of
//! equal digraphs.

use {
    crate::{
        cx,
        nd,
        oracle::G,
    },
    core::{
        cmp::Ordering,
        hash::{
            Hash,
            Hasher,
        },
    },
    graaf::{
        AddArc,
        AddArcWeighted,
        AdjacencyList,
        AdjacencyListWeighted,
        AdjacencyMap,
        AdjacencyMatrix,
        EdgeList,
        Empty,
        HasArc,
        RemoveArc,
    },
};

#[cfg(not(kani))]
use crate::kani;

/// Cheap order-sensitive hasher (no multiplications: rotate/xor/add).
pub struct Fold(pub u64);

impl Hasher for Fold {
    fn finish(&self) -> u64 {
        self.0
    }

    fn write(&mut self, bytes: &[u8]) {
        for b in bytes {
            self.0 = self.0.rotate_left(7) ^ u64::from(*b);
        }
    }

    fn write_usize(&mut self, i: usize) {
        self.0 = (self.0.rotate_left(13) ^ i as u64).wrapping_add(0x9E37_79B9);
    }

    fn write_u64(&mut self, i: u64) {
        self.0 = (self.0.rotate_left(13) ^ i).wrapping_add(0x9E37_79B9);
    }
}

fn hash_of<T: Hash>(t: &T) -> u64 {
    let mut h = Fold(0);

    t.hash(&mut h);

    h.finish()
}

pub trait Rep:
    Empty + AddArc + RemoveArc + HasArc + Clone + Eq + Ord + Hash
{
    fn toggle_off(&mut self, u: usize, v: usize) {
        let _ = self.remove_arc(u, v);
    }
}

impl Rep for AdjacencyList {}
impl Rep for AdjacencyMap {}
impl Rep for EdgeList {}

impl Rep for AdjacencyMatrix {
    fn toggle_off(&mut self, u: usize, v: usize) {
        // present before: toggling removes it
        self.toggle(u, v);
    }
}

fn build_up<R: Rep, const N: usize>(g: &G<N>) -> R {
    let mut d = R::empty(N);

    for u in 0..N {
        for v in 0..N {
            if g.a[u][v] {
                d.add_arc(u, v);
            }
        }
    }

    d
}

fn build_down<R: Rep, const N: usize>(g: &G<N>, use_toggle: bool) -> R {
    let mut d = R::empty(N);

    for u in 0..N {
        for v in 0..N {
            if u != v {
                d.add_arc(u, v);
            }
        }
    }

    for u in 0..N {
        for v in 0..N {
            if u != v && !g.a[u][v] {
                if use_toggle {
                    d.toggle_off(u, v);
                } else {
                    let _ = d.remove_arc(u, v);
                }
            }
        }
    }

    d
}

fn eq_ord_hash<R: Rep, const N: usize>() {
    cx::set_vcap(N * N);

    let g1 = G::<N>::any();
    let g2 = G::<N>::any();
    let use_toggle = nd::bool();
    let d1 = build_up::<R, N>(&g1);
    let d2 = build_down::<R, N>(&g2, use_toggle);
    let same = g1 == g2;

    assert!((d1 == d2) == same, "equal iff same vertex set and same arc set, whatever the history");

    if same {
        assert!(d1.cmp(&d2) == Ordering::Equal, "equal digraphs compare Ordering::Equal");
        assert!(hash_of(&d1) == hash_of(&d2), "equal digraphs have equal hashes");
    } else {
        assert!(d1.cmp(&d2) != Ordering::Equal, "different digraphs do not compare Equal");
        assert!(d1.cmp(&d2) == d2.cmp(&d1).reverse(), "ordering is antisymmetric");
    }

    kani::cover!(same && g1.size() > 0 && g1.size() < N * (N - 1), "equal, non-trivial digraphs from different histories");
    core::mem::forget(d1);
    core::mem::forget(d2);
}

/// Same arcs, different vertex sets (orders N and M, N < M): never equal.
fn different_order<R: Rep, const N: usize, const M: usize>() {
    cx::set_vcap(M * M);

    let g1 = G::<N>::any();
    let g2 = G::<M>::any();
    let d1 = build_up::<R, N>(&g1);
    let d2 = build_up::<R, M>(&g2);
    let mut same_arcs = true;

    for u in 0..M {
        for v in 0..M {
            let a = u < N && v < N && g1.a[u][v];

            if a != g2.a[u][v] {
                same_arcs = false;
            }
        }
    }

    assert!(d1 != d2, "digraphs with different vertex sets are never equal");
    assert!(d1.cmp(&d2) != Ordering::Equal, "digraphs with different vertex sets never compare Equal");
    assert!(d1.cmp(&d2) == d2.cmp(&d1).reverse(), "ordering is antisymmetric");
    kani::cover!(same_arcs && g1.size() > 0, "same non-empty arc set, one extra isolated vertex");
    core::mem::forget(d1);
    core::mem::forget(d2);
}

/// AdjacencyMap: equality is about the vertex SET (ids), not just the order
/// and the arcs. Two maps with vertex sets within {0, 2, 3}, isolated
/// vertices included.
fn map_vertex_sets() {
    use crate::oracle::GV;

    const IDS: [usize; 3] = [0, 2, 3];

    cx::set_vcap(5);

    let g1 = GV::<3>::any();
    let g2 = GV::<3>::any();

    kani::assume(g1.v[0] && g2.v[0]);

    // the third id (3) only ever occurs as an isolated vertex: keeps the query small while leaving
    // "same order, same arcs, different isolated vertex" inside it
    for u in 0..3 {
        kani::assume(!g1.a[u][2] && !g1.a[2][u] && !g2.a[u][2] && !g2.a[2][u]);
    }

    let mk = |g: &GV<3>| {
        let mut m = AdjacencyMap::empty(1);

        for u in 1..3 {
            if g.v[u] {
                // admit the vertex, leaving it isolated
                m.add_arc(0, IDS[u]);
                let _ = m.remove_arc(0, IDS[u]);
            }
        }

        for u in 0..2 {
            for v in 0..2 {
                if g.a[u][v] {
                    m.add_arc(IDS[u], IDS[v]);
                }
            }
        }

        m
    };
    let d1 = mk(&g1);
    let d2 = mk(&g2);
    let mut same_arcs = true;
    let mut same_verts = true;
    let (mut n1, mut n2) = (0, 0);

    for u in 0..3 {
        n1 += usize::from(g1.v[u]);
        n2 += usize::from(g2.v[u]);

        if g1.v[u] != g2.v[u] {
            same_verts = false;
        }

        for v in 0..3 {
            if g1.a[u][v] != g2.a[u][v] {
                same_arcs = false;
            }
        }
    }

    let same = same_arcs && same_verts;

    assert!((d1 == d2) == same, "equal iff same vertex set and same arc set");

    if same {
        assert!(d1.cmp(&d2) == Ordering::Equal, "equal digraphs compare Ordering::Equal");
        assert!(hash_of(&d1) == hash_of(&d2), "equal digraphs have equal hashes");
    } else {
        assert!(d1.cmp(&d2) != Ordering::Equal, "different digraphs do not compare Equal");
    }

    kani::cover!(!same && same_arcs && n1 == n2, "same order and arcs, different isolated vertex");
    core::mem::forget(d1);
    core::mem::forget(d2);
}

fn clone_independent<R: Rep, const N: usize>() {
    cx::set_vcap(N * N);

    let g = G::<N>::any();
    let d = build_up::<R, N>(&g);
    let mut c = d.clone();

    assert!(c == d, "a clone equals its original");

    // mutate one of them with an arbitrary valid operation
    let u = nd::below(N);
    let v = nd::below(N);

    kani::assume(u != v);

    let mutate_clone = nd::bool();
    let add = nd::bool();
    let mut d = d;

    {
        let target = if mutate_clone { &mut c } else { &mut d };

        if add {
            target.add_arc(u, v);
        } else {
            let _ = target.remove_arc(u, v);
        }
    }

    let untouched = if mutate_clone { &d } else { &c };
    let touched = if mutate_clone { &c } else { &d };

    for x in 0..N {
        for y in 0..N {
            assert!(untouched.has_arc(x, y) == g.a[x][y], "mutating one never changes the other");

            let want = if x == u && y == v { add } else { g.a[x][y] };

            assert!(touched.has_arc(x, y) == want, "the mutated one changes as requested");
        }
    }

    assert!((c == d) == (g.a[u][v] == add), "they stay equal iff the operation was a no-op");
    core::mem::forget(c);
    core::mem::forget(d);
}

fn weighted<const N: usize>() {
    cx::set_vcap(N * N);

    let mut d1 = AdjacencyListWeighted::<usize>::empty(N);
    let mut d2 = AdjacencyListWeighted::<usize>::empty(N);
    let mut m1 = [[None::<usize>; N]; N];
    let mut m2 = [[None::<usize>; N]; N];

    for u in 0..N {
        for v in 0..N {
            if u != v {
                if nd::bool() {
                    let w = nd::below(4);

                    d1.add_arc_weighted(u, v, w);
                    m1[u][v] = Some(w);
                }

                // second history: add with a first weight, then overwrite or remove
                let w0 = nd::below(4);

                d2.add_arc_weighted(u, v, w0);

                if nd::bool() {
                    let w = nd::below(4);

                    d2.add_arc_weighted(u, v, w);
                    m2[u][v] = Some(w);
                } else {
                    let _ = d2.remove_arc(u, v);
                }
            }
        }
    }

    let same = m1 == m2;

    assert!((d1 == d2) == same, "equal iff same arcs and same weights, whatever the history");

    if same {
        assert!(d1.cmp(&d2) == Ordering::Equal, "equal digraphs compare Ordering::Equal");
        assert!(hash_of(&d1) == hash_of(&d2), "equal digraphs have equal hashes");
    }

    let c = d1.clone();

    assert!(c == d1, "a clone equals its original");
    kani::cover!(same && m1[0][1].is_some(), "equal weighted digraphs from different histories");
    core::mem::forget(c);
    core::mem::forget(d1);
    core::mem::forget(d2);
}

// AdjacencyMatrix (real std, derived impls on the real blocks): no residue bit after remove / toggle.
// @verif prop=C20 tier=quick fl=f0 role=eq-ord-hash/matrix t=1200 mem=12
#[cfg_attr(kani, kani::proof)]
#[cfg_attr(kani, kani::unwind(10))]
pub fn c20_eq_ord_hash_matrix_n3() {
    eq_ord_hash::<AdjacencyMatrix, 3>();
}

// @verif prop=C20 tier=quick fl=f1 role=eq-ord-hash/edge-list t=1200 mem=12
#[cfg_attr(kani, kani::proof)]
#[cfg_attr(kani, kani::unwind(10))]
pub fn c20_eq_ord_hash_edge_list_n3() {
    eq_ord_hash::<EdgeList, 3>();
}

// @verif prop=C20 tier=quick fl=f2 role=eq-ord-hash/adjacency-list t=1500 mem=14
#[cfg_attr(kani, kani::proof)]
#[cfg_attr(kani, kani::unwind(10))]
pub fn c20_eq_ord_hash_adjacency_list_n3() {
    eq_ord_hash::<AdjacencyList, 3>();
}

// @verif prop=C20 tier=quick fl=f1 feat=map4 role=eq-ord-hash/adjacency-map t=1500 mem=14
#[cfg_attr(kani, kani::proof)]
#[cfg_attr(kani, kani::unwind(10))]
pub fn c20_eq_ord_hash_adjacency_map_n3() {
    eq_ord_hash::<AdjacencyMap, 3>();
}

// @verif prop=C20 tier=quick fl=f2 feat=map4 role=eq-ord-hash/weighted t=1500 mem=14
#[cfg_attr(kani, kani::proof)]
#[cfg_attr(kani, kani::unwind(10))]
pub fn c20_weighted_n3() {
    weighted::<3>();
}

// Same arc set but orders 2 and 3 (an extra isolated vertex): never equal, never Ordering::Equal.
// @verif prop=C20 tier=quick fl=f0 role=different-order/matrix t=1200 mem=12
#[cfg_attr(kani, kani::proof)]
#[cfg_attr(kani, kani::unwind(10))]
pub fn c20_different_order_matrix_n2_n3() {
    different_order::<AdjacencyMatrix, 2, 3>();
}

// @verif prop=C20 tier=quick fl=f1 role=different-order/edge-list t=1200 mem=12
#[cfg_attr(kani, kani::proof)]
#[cfg_attr(kani, kani::unwind(10))]
pub fn c20_different_order_edge_list_n2_n3() {
    different_order::<EdgeList, 2, 3>();
}

// @verif prop=C20 tier=quick fl=f2 role=different-order/adjacency-list t=1200 mem=12
#[cfg_attr(kani, kani::proof)]
#[cfg_attr(kani, kani::unwind(10))]
pub fn c20_different_order_adjacency_list_n2_n3() {
    different_order::<AdjacencyList, 2, 3>();
}

// @verif prop=C20 tier=quick fl=f1 feat=map4 role=different-order/adjacency-map t=1200 mem=12
#[cfg_attr(kani, kani::proof)]
#[cfg_attr(kani, kani::unwind(10))]
pub fn c20_different_order_adjacency_map_n2_n3() {
    different_order::<AdjacencyMap, 2, 3>();
}

// AdjacencyMap pairs with vertex sets within {0, 2, 3}: equality distinguishes vertex sets of equal size.
// @verif prop=C20 tier=quick fl=f1 feat=map4 role=vertex-sets/adjacency-map t=1500 mem=30
#[cfg_attr(kani, kani::proof)]
#[cfg_attr(kani, kani::unwind(8))]
pub fn c20_map_vertex_sets() {
    map_vertex_sets();
}

// @verif prop=C20 tier=quick fl=f0 role=clone/matrix t=1200 mem=12
#[cfg_attr(kani, kani::proof)]
#[cfg_attr(kani, kani::unwind(10))]
pub fn c20_clone_matrix_n3() {
    clone_independent::<AdjacencyMatrix, 3>();
}

// @verif prop=C20 tier=quick fl=f2 role=clone/adjacency-list t=1200 mem=12
#[cfg_attr(kani, kani::proof)]
#[cfg_attr(kani, kani::unwind(8))]
pub fn c20_clone_adjacency_list_n3() {
    clone_independent::<AdjacencyList, 3>();
}

// @verif prop=C20 tier=thorough fl=f1 feat=map4 role=clone/adjacency-map t=1800 mem=16
#[cfg_attr(kani, kani::proof)]
#[cfg_attr(kani, kani::unwind(10))]
pub fn c20_clone_adjacency_map_n3() {
    clone_independent::<AdjacencyMap, 3>();
}

// @verif prop=C20 tier=thorough fl=f1 role=clone/edge-list t=1800 mem=16
#[cfg_attr(kani, kani::proof)]
#[cfg_attr(kani, kani::unwind(8))]
pub fn c20_clone_edge_list_n3() {
    clone_independent::<EdgeList, 3>();
}

// AdjacencyMatrix at order 8 (64 cells = exactly one block) — thorough.
// @verif prop=C20 tier=thorough fl=f0 role=eq-ord-hash/matrix t=3600 mem=16
#[cfg_attr(kani, kani::proof)]
#[cfg_attr(kani, kani::unwind(18))]
pub fn c20_eq_ord_hash_matrix_n4() {
    eq_ord_hash::<AdjacencyMatrix, 4>();
}
