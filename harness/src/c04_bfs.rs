//! C04 — Bfs / BfsDist yield exactly the reachable set, nearest first.

use {
    crate::{
        cx,
        nd,
        oracle::{
            mask,
            G,
            INF,
        },
    },
    graaf::{
        Bfs,
        BfsDist,
    },
};

#[cfg(not(kani))]
use crate::kani;

/// graaf's generic `Bfs` over every digraph on N vertices and every source
/// set (N(N-1) + N symbolic bits).
fn bfs_array<const N: usize>() {
    cx::set_vcap(2 * N);

    let g = G::<N>::any();
    let src: [bool; N] = nd::bools();
    let hop = g.hop(&src);
    let mut seen = [false; N];
    let mut last = 0;
    let mut it = Bfs::new(&g, mask(src));

    for _ in 0..N {
        match it.next() {
            Some(u) => {
                assert!(u < N, "yielded id in range");
                assert!(!seen[u], "vertex yielded once");
                assert!(hop[u] != INF, "yielded vertex is reachable");
                assert!(hop[u] >= last, "non-decreasing hop distance");

                last = hop[u];
                seen[u] = true;
            }
            None => break,
        }
    }

    assert!(it.next().is_none(), "exhausted after at most N items");

    for u in 0..N {
        assert!(seen[u] == (hop[u] != INF), "yielded set = reachable set");
    }

    kani::cover!(seen[N - 1] && !src[N - 1], "a non-source is reached");
    kani::cover!(!seen[0], "some vertex is unreachable");
    core::mem::forget(it);
}

fn bfs_dist_array<const N: usize>() {
    cx::set_vcap(2 * N);

    let g = G::<N>::any();
    let src: [bool; N] = nd::bools();
    let hop = g.hop(&src);
    let mut seen = [false; N];
    let mut last = 0;
    let mut it = BfsDist::new(&g, mask(src));

    for _ in 0..N {
        match it.next() {
            Some((u, d)) => {
                assert!(u < N, "yielded id in range");
                assert!(!seen[u], "vertex yielded once");
                assert!(hop[u] == d, "item carries the exact hop distance");
                assert!(d != INF, "yielded vertex is reachable");
                assert!(d >= last, "non-decreasing hop distance");

                last = d;
                seen[u] = true;
            }
            None => break,
        }
    }

    assert!(it.next().is_none(), "exhausted after at most N items");

    for u in 0..N {
        assert!(seen[u] == (hop[u] != INF), "yielded set = reachable set");
    }

    kani::cover!(last == N - 1, "a vertex at distance N-1");
    core::mem::forget(it);
}

fn bfs_distances_array<const N: usize>() {
    cx::set_vcap(2 * N);

    let g = G::<N>::any();
    let src: [bool; N] = nd::bools();
    let hop = g.hop(&src);
    let mut it = BfsDist::new(&g, mask(src));
    let d = it.distances();

    assert!(d.len() == N, "one entry per vertex");

    for u in 0..N {
        assert!(d[u] == hop[u], "distances() = hop distances, MAX iff unreachable");
    }

    kani::cover!(d[N - 1] == INF, "an unreachable vertex");
    kani::cover!(d[N - 1] == N - 1, "a vertex at distance N-1");
    core::mem::forget(d);
    core::mem::forget(it);
}

/// `BfsDist::distances` through a real representation (its own
/// `out_neighbors`), every digraph on N vertices, every source set.
fn bfs_repr<R, const N: usize>()
where
    R: graaf::Empty + graaf::AddArc + graaf::Order + graaf::OutNeighbors,
{
    cx::set_vcap(2 * N);
    cx::set_parallelism(1);

    let g = G::<N>::any();
    let src: [bool; N] = nd::bools();
    let hop = g.hop(&src);
    let mut d = R::empty(N);

    for u in 0..N {
        for v in 0..N {
            if g.a[u][v] {
                d.add_arc(u, v);
            }
        }
    }

    let mut seen = [false; N];
    let mut last = 0;

    {
        let mut it = BfsDist::new(&d, mask(src));

        for _ in 0..N {
            match it.next() {
                Some((u, dist)) => {
                    assert!(u < N && !seen[u], "vertex yielded once");
                    assert!(hop[u] == dist && dist != INF, "item carries the exact hop distance");
                    assert!(dist >= last, "non-decreasing hop distance");

                    last = dist;
                    seen[u] = true;
                }
                None => break,
            }
        }

        assert!(it.next().is_none(), "exhausted after at most N items");
        core::mem::forget(it);
    }

    for u in 0..N {
        assert!(seen[u] == (hop[u] != INF), "yielded set = reachable set");
    }

    kani::cover!(last == N - 1, "a vertex at distance N-1");
    core::mem::forget(d);
}

// BfsDist through each real representation, every digraph on 3 vertices x every source set.
// @verif prop=C04 tier=thorough fl=f2 role=bfs-dist/adjacency-list t=1500 mem=16
#[cfg_attr(kani, kani::proof)]
#[cfg_attr(kani, kani::unwind(8))]
pub fn c04_bfs_dist_adjacency_list_n3() {
    bfs_repr::<graaf::AdjacencyList, 3>();
}

// @verif prop=C04 tier=thorough fl=f2 role=bfs-dist/matrix t=1500 mem=16
#[cfg_attr(kani, kani::proof)]
#[cfg_attr(kani, kani::unwind(10))]
pub fn c04_bfs_dist_matrix_n3() {
    bfs_repr::<graaf::AdjacencyMatrix, 3>();
}

// @verif prop=C04 tier=thorough fl=f2 role=bfs-dist/edge-list t=1500 mem=16
#[cfg_attr(kani, kani::proof)]
#[cfg_attr(kani, kani::unwind(8))]
pub fn c04_bfs_dist_edge_list_n3() {
    bfs_repr::<graaf::EdgeList, 3>();
}

// @verif prop=C04 tier=thorough fl=f2 feat=map4 role=bfs-dist/adjacency-map t=1500 mem=16
#[cfg_attr(kani, kani::proof)]
#[cfg_attr(kani, kani::unwind(8))]
pub fn c04_bfs_dist_adjacency_map_n3() {
    bfs_repr::<graaf::AdjacencyMap, 3>();
}

// @verif prop=C04 tier=quick fl=f2 role=bfs/array t=600 mem=10
#[cfg_attr(kani, kani::proof)]
#[cfg_attr(kani, kani::unwind(6))]
pub fn c04_bfs_array_n4() {
    bfs_array::<4>();
}

// @verif prop=C04 tier=quick fl=f2 role=bfs-dist/array t=600 mem=10
#[cfg_attr(kani, kani::proof)]
#[cfg_attr(kani, kani::unwind(6))]
pub fn c04_bfs_dist_array_n4() {
    bfs_dist_array::<4>();
}

// @verif prop=C04 tier=quick fl=f2 role=bfs-distances/array t=600 mem=10
#[cfg_attr(kani, kani::proof)]
#[cfg_attr(kani, kani::unwind(6))]
pub fn c04_bfs_distances_array_n4() {
    bfs_distances_array::<4>();
}

// @verif prop=C04 tier=thorough fl=f2 role=bfs/array t=3600 mem=16
#[cfg_attr(kani, kani::proof)]
#[cfg_attr(kani, kani::unwind(7))]
pub fn c04_bfs_array_n5() {
    bfs_array::<5>();
}

// @verif prop=C04 tier=thorough fl=f2 role=bfs-dist/array t=3600 mem=16
#[cfg_attr(kani, kani::proof)]
#[cfg_attr(kani, kani::unwind(7))]
pub fn c04_bfs_dist_array_n5() {
    bfs_dist_array::<5>();
}
