//! C05 — predecessor trees and shortest paths from BFS and Dijkstra are valid
//! and optimal.

use {
    crate::{
        c03_dijkstra::{
            any_arcs,
            any_sources,
        },
        cx,
        nd,
        oracle::{
            mask,
            G,
            INF,
        },
    },
    graaf::{
        BfsPred,
        DijkstraPred,
    },
};

#[cfg(not(kani))]
use crate::kani;

fn bfs_predecessors<const N: usize>() {
    cx::set_vcap(N + 1);

    let g = G::<N>::any();
    let src: [bool; N] = nd::bools();
    let hop = g.hop(&src);
    let mut it = BfsPred::new(&g, mask(src));
    let tree = it.predecessors();

    assert!(tree.pred.len() == N, "one entry per vertex");

    for v in 0..N {
        match tree[v] {
            None => assert!(src[v] || hop[v] == INF, "only sources and unreachable vertices have no predecessor"),
            Some(u) => {
                assert!(!src[v] && hop[v] != INF, "sources and unreachable vertices have no predecessor");
                assert!(u < N && g.a[u][v], "pred[v] -> v is an arc");
                assert!(hop[u] != INF && hop[u] + 1 == hop[v], "dist(pred[v]) + 1 = dist(v)");
            }
        }
    }

    kani::cover!(hop[N - 1] == N - 1, "a shortest path through all vertices");
    core::mem::forget(tree);
    core::mem::forget(it);
}

fn bfs_shortest_path<const N: usize>() {
    cx::set_vcap(N + 1);

    let g = G::<N>::any();
    let src: [bool; N] = nd::bools();
    let target: [bool; N] = nd::bools();
    let hop = g.hop(&src);
    let mut best = INF;

    for v in 0..N {
        if target[v] && hop[v] < best {
            best = hop[v];
        }
    }

    let mut it = BfsPred::new(&g, mask(src));
    let path = it.shortest_path(|v| v < N && target[v]);

    match &path {
        None => assert!(best == INF, "None exactly when no reachable vertex satisfies the predicate"),
        Some(p) => {
            assert!(best != INF, "Some only when a reachable target exists");
            assert!(p.len() == best + 1, "the path has minimum length over all targets");
            assert!(p.len() >= 1 && p.len() <= N, "path length in range");
            assert!(src[p[0]], "the path starts at a source");
            assert!(target[p[p.len() - 1]], "the path ends at a target");

            for i in 0..N {
                if i + 1 < p.len() {
                    assert!(g.a[p[i]][p[i + 1]], "consecutive path vertices are joined by an arc");
                }
            }
        }
    }

    kani::cover!(best == N - 1, "a shortest path through all vertices");
    kani::cover!(best == 0, "a source is a target");
    core::mem::forget(path);
    core::mem::forget(it);
}

fn bfs_cycles<const N: usize>() {
    cx::set_vcap(N * N);

    let g = G::<N>::any();
    let s = nd::below(N);
    let mut src = [false; N];

    src[s] = true;

    let mut it = BfsPred::new(&g, mask(src));
    let cycles = it.cycles();

    assert!(cycles.len() <= N * N, "bounded number of reported cycles");

    for c in 0..N * N {
        if c < cycles.len() {
            let cyc = &cycles[c];
            let mut seen = [false; N];

            assert!(cyc.len() >= 2 && cyc.len() <= N, "an elementary cycle has 2..=N vertices");

            for i in 0..N {
                if i < cyc.len() {
                    let u = cyc[i];
                    let v = if i + 1 < cyc.len() { cyc[i + 1] } else { cyc[0] };

                    assert!(u < N && !seen[u], "vertices of a cycle are distinct");
                    assert!(g.a[u][v], "consecutive cycle vertices (and the closing pair) are arcs");

                    seen[u] = true;
                }
            }
        }
    }

    kani::cover!(cycles.len() >= 1 && cycles[0].len() == N, "a cycle through all vertices");
    core::mem::forget(cycles);
    core::mem::forget(it);
}

fn dijkstra_predecessors<const N: usize, const M: usize>() {
    cx::set_vcap(N + M);

    let g = any_arcs::<N, M>(16);
    let src = any_sources::<N>(2);
    let dense = g.dense::<N>();
    let want = dense.dist(&src);
    let mut it = DijkstraPred::new(&g, mask(src));
    let tree = it.predecessors();

    for v in 0..N {
        match tree[v] {
            None => assert!(src[v] || want[v] == INF, "only sources and unreachable vertices have no predecessor"),
            Some(u) => {
                assert!(!src[v] && want[v] != INF, "sources and unreachable vertices have no predecessor");
                assert!(u < N, "predecessor in range");

                match dense.w[u][v] {
                    None => panic!("pred[v] -> v is an arc"),
                    Some(w) => assert!(want[u] != INF && want[u] + w == want[v], "dist(pred[v]) + w = dist(v)"),
                }
            }
        }
    }

    core::mem::forget(tree);
    core::mem::forget(it);
}

fn dijkstra_shortest_path<const N: usize, const M: usize>() {
    cx::set_vcap(N + M);

    let g = any_arcs::<N, M>(16);
    let src = any_sources::<N>(2);
    let target: [bool; N] = nd::bools();
    let dense = g.dense::<N>();
    let want = dense.dist(&src);
    let mut best = INF;

    for v in 0..N {
        if target[v] && want[v] < best {
            best = want[v];
        }
    }

    let mut it = DijkstraPred::new(&g, mask(src));
    let path = it.shortest_path(|v| v < N && target[v]);

    match &path {
        None => assert!(best == INF, "None exactly when no reachable vertex satisfies the predicate"),
        Some(p) => {
            assert!(best != INF, "Some only when a reachable target exists");
            assert!(p.len() >= 1 && p.len() <= N, "path length in range");
            assert!(src[p[0]], "the path starts at a source");
            assert!(target[p[p.len() - 1]], "the path ends at a target");

            let mut weight = 0;

            for i in 0..N {
                if i + 1 < p.len() {
                    match dense.w[p[i]][p[i + 1]] {
                        None => panic!("consecutive path vertices are joined by an arc"),
                        Some(w) => weight += w,
                    }
                }
            }

            assert!(weight == best, "the path has minimum weight over all targets");
        }
    }

    core::mem::forget(path);
    core::mem::forget(it);
}

// BfsPred::predecessors over every digraph on 4 vertices x every source set.
// @verif prop=C05 tier=quick fl=f2 role=bfs-predecessors/array t=1200 mem=14
#[cfg_attr(kani, kani::proof)]
#[cfg_attr(kani, kani::unwind(7))]
pub fn c05_bfs_predecessors_n4() {
    bfs_predecessors::<4>();
}

// BfsPred::shortest_path over every digraph on 4 vertices x every source set x every target predicate.
// @verif prop=C05 tier=quick fl=f2 role=bfs-shortest-path/array t=1200 mem=14
#[cfg_attr(kani, kani::proof)]
#[cfg_attr(kani, kani::unwind(7))]
pub fn c05_bfs_shortest_path_n4() {
    bfs_shortest_path::<4>();
}

// BfsPred::cycles over every digraph on 3 vertices, every single source.
// @verif prop=C05 tier=quick fl=f2 role=bfs-cycles/array t=1200 mem=14
#[cfg_attr(kani, kani::proof)]
#[cfg_attr(kani, kani::unwind(6))]
pub fn c05_bfs_cycles_n3() {
    bfs_cycles::<3>();
}

// DijkstraPred::predecessors, <= 3 arcs on 3 vertices, weights < 16.
// @verif prop=C05 tier=quick fl=f2 role=dijkstra-predecessors/sparse t=1800 mem=20
#[cfg_attr(kani, kani::proof)]
#[cfg_attr(kani, kani::unwind(5))]
pub fn c05_dijkstra_predecessors_n3_m3() {
    dijkstra_predecessors::<3, 3>();
}

// DijkstraPred::shortest_path, <= 3 arcs on 3 vertices, every target predicate.
// @verif prop=C05 tier=quick fl=f2 role=dijkstra-shortest-path/sparse t=1800 mem=20
#[cfg_attr(kani, kani::proof)]
#[cfg_attr(kani, kani::unwind(5))]
pub fn c05_dijkstra_shortest_path_n3_m3() {
    dijkstra_shortest_path::<3, 3>();
}
