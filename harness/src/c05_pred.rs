//! C05 — predecessor trees and shortest paths from BFS and Dijkstra are valid
//! and optimal.

use {
    crate::{
        c03_dijkstra::{
            any_arcs,
            any_sources,
        },
        cx,
        nd,
        oracle::{
            mask,
            G,
            INF,
        },
    },
    graaf::{
        BfsPred,
        DijkstraPred,
    },
};

#[cfg(not(kani))]
use crate::kani;

fn bfs_predecessors<const N: usize>() {
    cx::set_vcap(2 * N);

    let g = G::<N>::any();
    let src: [bool; N] = nd::bools();
    let hop = g.hop(&src);
    let mut it = BfsPred::new(&g, mask(src));
    let tree = it.predecessors();

    assert!(tree.pred.len() == N, "one entry per vertex");

    for v in 0..N {
        match tree[v] {
            None => assert!(src[v] || hop[v] == INF, "only sources and unreachable vertices have no predecessor"),
            Some(u) => {
                assert!(!src[v] && hop[v] != INF, "sources and unreachable vertices have no predecessor");
                assert!(u < N && g.a[u][v], "pred[v] -> v is an arc");
                assert!(hop[u] != INF && hop[u] + 1 == hop[v], "dist(pred[v]) + 1 = dist(v)");
            }
        }
    }

    kani::cover!(hop[N - 1] == N - 1, "a shortest path through all vertices");
    core::mem::forget(tree);
    core::mem::forget(it);
}

fn bfs_shortest_path<const N: usize>() {
    cx::set_vcap(2 * N);

    let g = G::<N>::any();
    let src: [bool; N] = nd::bools();
    let target: [bool; N] = nd::bools();
    let hop = g.hop(&src);
    let mut best = INF;

    for v in 0..N {
        if target[v] && hop[v] < best {
            best = hop[v];
        }
    }

    let mut it = BfsPred::new(&g, mask(src));
    let path = it.shortest_path(|v| v < N && target[v]);

    match &path {
        None => assert!(best == INF, "None exactly when no reachable vertex satisfies the predicate"),
        Some(p) => {
            assert!(best != INF, "Some only when a reachable target exists");
            assert!(p.len() == best + 1, "the path has minimum length over all targets");
            assert!(p.len() >= 1 && p.len() <= N, "path length in range");
            assert!(src[p[0]], "the path starts at a source");
            assert!(target[p[p.len() - 1]], "the path ends at a target");

            for i in 0..N {
                if i + 1 < p.len() {
                    assert!(g.a[p[i]][p[i + 1]], "consecutive path vertices are joined by an arc");
                }
            }
        }
    }

    kani::cover!(best == N - 1, "a shortest path through all vertices");
    kani::cover!(best == 0, "a source is a target");
    core::mem::forget(path);
    core::mem::forget(it);
}

fn bfs_cycles<const N: usize>() {
    cx::set_vcap(N * N);

    let g = G::<N>::any();
    let s = nd::below(N);
    let mut src = [false; N];

    src[s] = true;

    let mut it = BfsPred::new(&g, mask(src));
    let cycles = it.cycles();

    assert!(cycles.len() <= N * N, "bounded number of reported cycles");

    for c in 0..N * N {
        if c < cycles.len() {
            let cyc = &cycles[c];
            let mut seen = [false; N];

            assert!(cyc.len() >= 2 && cyc.len() <= N, "an elementary cycle has 2..=N vertices");

            for i in 0..N {
                if i < cyc.len() {
                    let u = cyc[i];
                    let v = if i + 1 < cyc.len() { cyc[i + 1] } else { cyc[0] };

                    assert!(u < N && !seen[u], "vertices of a cycle are distinct");
                    assert!(g.a[u][v], "consecutive cycle vertices (and the closing pair) are arcs");

                    seen[u] = true;
                }
            }
        }
    }

    kani::cover!(cycles.len() >= 1 && cycles[0].len() == N, "a cycle through all vertices");
    core::mem::forget(cycles);
    core::mem::forget(it);
}

fn dijkstra_predecessors<const N: usize, const M: usize>() {
    cx::set_vcap(N + M);

    let g = any_arcs::<N, M>(16);
    let src = any_sources::<N>(2);
    let dense = g.dense::<N>();
    let want = dense.dist(&src);
    let mut it = DijkstraPred::new(&g, mask(src));
    let tree = it.predecessors();

    for v in 0..N {
        match tree[v] {
            None => assert!(src[v] || want[v] == INF, "only sources and unreachable vertices have no predecessor"),
            Some(u) => {
                assert!(!src[v] && want[v] != INF, "sources and unreachable vertices have no predecessor");
                assert!(u < N, "predecessor in range");

                match dense.w[u][v] {
                    None => panic!("pred[v] -> v is an arc"),
                    Some(w) => assert!(want[u] != INF && want[u] + w == want[v], "dist(pred[v]) + w = dist(v)"),
                }
            }
        }
    }

    core::mem::forget(tree);
    core::mem::forget(it);
}

fn dijkstra_shortest_path<const N: usize, const M: usize>() {
    cx::set_vcap(N + M);

    let g = any_arcs::<N, M>(16);
    let src = any_sources::<N>(2);
    let target: [bool; N] = nd::bools();
    let dense = g.dense::<N>();
    let want = dense.dist(&src);
    let mut best = INF;

    for v in 0..N {
        if target[v] && want[v] < best {
            best = want[v];
        }
    }

    let mut it = DijkstraPred::new(&g, mask(src));
    let path = it.shortest_path(|v| v < N && target[v]);

    match &path {
        None => assert!(best == INF, "None exactly when no reachable vertex satisfies the predicate"),
        Some(p) => {
            assert!(best != INF, "Some only when a reachable target exists");
            assert!(p.len() >= 1 && p.len() <= N, "path length in range");
            assert!(src[p[0]], "the path starts at a source");
            assert!(target[p[p.len() - 1]], "the path ends at a target");

            let mut weight = 0;

            for i in 0..N {
                if i + 1 < p.len() {
                    match dense.w[p[i]][p[i + 1]] {
                        None => panic!("consecutive path vertices are joined by an arc"),
                        Some(w) => weight += w,
                    }
                }
            }

            assert!(weight == best, "the path has minimum weight over all targets");
        }
    }

    core::mem::forget(path);
    core::mem::forget(it);
}

// BfsPred::predecessors over every digraph on 4 vertices x every source set.
// @verif prop=C05 tier=quick fl=f2 role=bfs-predecessors/array t=1200 mem=14
#[cfg_attr(kani, kani::proof)]
#[cfg_attr(kani, kani::unwind(7))]
pub fn c05_bfs_predecessors_n4() {
    bfs_predecessors::<4>();
}

// BfsPred::shortest_path over every digraph on 4 vertices x every source set x every target predicate.
// @verif prop=C05 tier=exp fl=f2 role=bfs-shortest-path/array t=3600 mem=30
#[cfg_attr(kani, kani::proof)]
#[cfg_attr(kani, kani::unwind(7))]
pub fn c05_bfs_shortest_path_n4() {
    bfs_shortest_path::<4>();
}

// BfsPred::shortest_path over every digraph on 3 vertices x every source set x every target predicate.
// @verif prop=C05 tier=quick fl=f2 role=bfs-shortest-path/array t=1200 mem=14
#[cfg_attr(kani, kani::proof)]
#[cfg_attr(kani, kani::unwind(6))]
pub fn c05_bfs_shortest_path_n3() {
    bfs_shortest_path::<3>();
}

// BfsPred::cycles over every digraph on 2 vertices, every single source (order 3 is an experiment: out of memory).
// @verif prop=C05 tier=exp fl=f2 role=bfs-cycles/array t=1200 mem=14
#[cfg_attr(kani, kani::proof)]
#[cfg_attr(kani, kani::unwind(6))]
pub fn c05_bfs_cycles_n2() {
    bfs_cycles::<2>();
}

// BfsPred::cycles over every digraph on 3 vertices, every single source.
// @verif prop=C05 tier=exp fl=f2 role=bfs-cycles/array t=3600 mem=30
#[cfg_attr(kani, kani::proof)]
#[cfg_attr(kani, kani::unwind(6))]
pub fn c05_bfs_cycles_n3() {
    bfs_cycles::<3>();
}

// DijkstraPred::predecessors, <= 3 arcs on 3 vertices, weights < 16.
// @verif prop=C05 tier=exp fl=f2 role=dijkstra-predecessors/sparse t=3600 mem=30
#[cfg_attr(kani, kani::proof)]
#[cfg_attr(kani, kani::unwind(5))]
pub fn c05_dijkstra_predecessors_n3_m3() {
    dijkstra_predecessors::<3, 3>();
}

// DijkstraPred::shortest_path, <= 3 arcs on 3 vertices, every target predicate.
// @verif prop=C05 tier=exp fl=f2 role=dijkstra-shortest-path/sparse t=3600 mem=30
#[cfg_attr(kani, kani::proof)]
#[cfg_attr(kani, kani::unwind(5))]
pub fn c05_dijkstra_shortest_path_n3_m3() {
    dijkstra_shortest_path::<3, 3>();
}

// ---------------------------------------------------------------------------
// DijkstraPred, inductive form (see c03_dijkstra.rs): the heap entries carry
// the predecessor, and the invariant says that the predecessor explains the
// key: key = dist[pred] + w(pred, v) with pred settled, or pred = None at a
// source with key 0.
// ---------------------------------------------------------------------------

use crate::{
    c03_dijkstra::{
        any_dense,
        invariant,
        Entry,
        WMAX,
    },
    oracle::WG,
};

fn read_heap_pred<const H: usize>(it: &DijkstraPred<'_, WG<3, usize>>) -> ([Entry; H], usize, bool) {
    let mut out = [Entry { k: 0, v: 0, p: None }; H];
    let mut n = 0;
    let mut overflow = false;

    for e in it.heap.iter() {
        if n < H {
            out[n] = Entry { k: (e.0).0, v: (e.1).1, p: (e.1).0 };
            n += 1;
        } else {
            overflow = true;
        }
    }

    (out, n, overflow)
}

fn pred_base() {
    const N: usize = 3;

    cx::set_vcap(8);

    let g = any_dense::<N>(WMAX);
    let src: [bool; N] = nd::bools();
    let delta = g.dist(&src);
    let it = DijkstraPred::new(&g, mask(src));
    let (entries, h, overflow) = read_heap_pred::<4>(&it);
    let dist = [it.dist[0], it.dist[1], it.dist[2]];

    assert!(!overflow && it.dist.len() == N, "initial state shape");
    assert!(
        invariant::<N, 4>(&g, &src, &delta, &dist, &entries, h, &[false; N], N * WMAX, true),
        "the initial state satisfies the Dijkstra invariant"
    );
    core::mem::forget(it);
}

fn pred_step<const H: usize, const H2: usize>(wmax: usize) {
    const N: usize = 3;

    cx::set_vcap(H2.max(4));

    let g = any_dense::<N>(wmax);
    let src: [bool; N] = nd::bools();
    let delta = g.dist(&src);
    let bound = N * wmax;
    let mut it = DijkstraPred::new(&g, mask([false; N]));
    let mut dist = [INF; N];
    let settled: [bool; N] = nd::bools();
    let h = nd::below(H + 1);
    let mut entries = [Entry { k: 0, v: 0, p: None }; H];

    for v in 0..N {
        dist[v] = nd::usize();
        it.dist[v] = dist[v];
    }

    for i in 0..H {
        entries[i] = Entry { k: nd::usize(), v: nd::below(N), p: nd::opt_below(N) };

        if i < h {
            it.heap.push((core::cmp::Reverse(entries[i].k), (entries[i].p, entries[i].v)));
        }
    }

    kani::assume(invariant::<N, H>(&g, &src, &delta, &dist, &entries, h, &settled, bound, true));

    let r = it.next();
    let (post, h2, overflow) = read_heap_pred::<H2>(&it);
    let dist2 = [it.dist[0], it.dist[1], it.dist[2]];

    assert!(!overflow, "post-state heap fits the harness buffer");

    match r {
        Some((p, v)) => {
            assert!(v < N && !settled[v], "a vertex is yielded at most once");
            assert!(dist2[v] == delta[v] && delta[v] != INF, "a yielded vertex is reachable and its distance is final");

            match p {
                None => assert!(src[v], "only sources are yielded without predecessor"),
                Some(u) => {
                    assert!(u < N && settled[u], "the predecessor was yielded before");

                    match g.w[u][v] {
                        None => panic!("pred -> v is an arc"),
                        Some(w) => assert!(delta[u] + w == delta[v], "dist(pred) + w = dist(v)"),
                    }

                    assert!(!src[v] || delta[v] == 0, "a source is at distance 0");
                }
            }

            let mut settled2 = settled;

            settled2[v] = true;

            assert!(
                invariant::<N, H2>(&g, &src, &delta, &dist2, &post, h2, &settled2, bound, true),
                "next() preserves the Dijkstra invariant"
            );
        }
        None => {
            for v in 0..N {
                assert!(settled[v] == (delta[v] != INF), "at exhaustion exactly the reachable vertices were yielded");
            }
        }
    }

    kani::cover!(matches!(r, Some((Some(_), _))) && h == H, "a non-root yield from a full pre-state");
    core::mem::forget(it);
}

/// predecessors() / shortest_path() are folds of the yielded steps: whole run
/// on 2 vertices.
fn pred_wrappers_n2() {
    const N: usize = 2;

    cx::set_vcap(6);

    let g = any_dense::<N>(WMAX);
    let src: [bool; N] = nd::bools();
    let target: [bool; N] = nd::bools();
    let delta = g.dist(&src);
    let mut it = DijkstraPred::new(&g, mask(src));
    let tree = it.predecessors();

    for v in 0..N {
        match tree[v] {
            None => assert!(src[v] || delta[v] == INF, "only sources and unreachable vertices have no predecessor"),
            Some(u) => {
                assert!(!src[v] && u < N, "sources have no predecessor");

                match g.w[u][v] {
                    None => panic!("pred[v] -> v is an arc"),
                    Some(w) => assert!(delta[u] != INF && delta[u] + w == delta[v], "dist(pred[v]) + w = dist(v)"),
                }
            }
        }
    }

    let mut best = INF;

    for v in 0..N {
        if target[v] && delta[v] < best {
            best = delta[v];
        }
    }

    let mut it2 = DijkstraPred::new(&g, mask(src));
    let path = it2.shortest_path(|v| v < N && target[v]);

    match &path {
        None => assert!(best == INF, "None exactly when no reachable vertex satisfies the predicate"),
        Some(p) => {
            assert!(best != INF && p.len() >= 1 && p.len() <= N, "Some only when a reachable target exists");
            assert!(src[p[0]] && target[p[p.len() - 1]], "from a source to a target");

            let mut weight = 0;

            if p.len() == 2 {
                match g.w[p[0]][p[1]] {
                    None => panic!("consecutive path vertices are joined by an arc"),
                    Some(w) => weight = w,
                }
            }

            assert!(weight == best, "the path has minimum weight over all targets");
        }
    }

    core::mem::forget(path);
    core::mem::forget(tree);
    core::mem::forget(it);
    core::mem::forget(it2);
}

// Base case: DijkstraPred::new establishes the invariant (3 vertices).
// @verif prop=C05 tier=quick fl=f2 role=dijkstra-inductive/base t=1200 mem=14
#[cfg_attr(kani, kani::proof)]
#[cfg_attr(kani, kani::unwind(6))]
pub fn c05_dijkstra_pred_base_n3() {
    pred_base();
}

// Inductive step of DijkstraPred::next from ANY invariant state (3 vertices, <= 3 heap entries): tree condition for every yield.
// @verif prop=C05 tier=thorough fl=f2 role=dijkstra-inductive/step t=3000 mem=24 feat=cap4
#[cfg_attr(kani, kani::proof)]
#[cfg_attr(kani, kani::unwind(6))]
pub fn c05_dijkstra_pred_step_n3_h3() {
    pred_step::<3, 4>(256);
}

// The same step with weights < 2^62.
// @verif prop=C05 tier=exp fl=f2 feat=cap4 role=dijkstra-inductive/step-large t=3600 mem=30
#[cfg_attr(kani, kani::proof)]
#[cfg_attr(kani, kani::unwind(6))]
pub fn c05_dijkstra_pred_step_large_n3_h3() {
    pred_step::<3, 4>(WMAX);
}

// predecessors() and shortest_path() wrappers, whole run on 2 vertices.
// @verif prop=C05 tier=exp fl=f2 role=dijkstra-wrappers/whole-run-n2 t=3600 mem=30
#[cfg_attr(kani, kani::proof)]
#[cfg_attr(kani, kani::unwind(5))]
pub fn c05_dijkstra_pred_wrappers_n2() {
    pred_wrappers_n2();
}

// Quick form of the inductive step: pre-states with <= 2 heap entries (a stale and a live one suffice for the
// early-None defect); the <= 3 form is thorough.
// @verif prop=C05 tier=quick fl=f2 feat=cap4 role=dijkstra-inductive/step t=900 mem=20
#[cfg_attr(kani, kani::proof)]
#[cfg_attr(kani, kani::unwind(6))]
pub fn c05_dijkstra_pred_step_n3_h2() {
    pred_step::<2, 4>(256);
}
