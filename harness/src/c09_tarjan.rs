//! C09 — Tarjan partitions the vertices into the strongly connected
//! components.

use {
    crate::{
        cx,
        nd,
        oracle::G,
    },
    graaf::{
        AddArc,
        AdjacencyMap,
        Empty,
        Tarjan,
    },
};

#[cfg(not(kani))]
use crate::kani;

fn array<const N: usize>() {
    cx::set_vcap(N + 1);

    let g = G::<N>::any();
    let r = g.reach_matrix();
    let mut t = Tarjan::new(&g);
    let comps = t.components();
    // comp_of[v] = index of the component that contains v
    let mut comp_of = [usize::MAX; N];

    assert!(comps.len() <= N, "at most one component per vertex");

    for c in 0..N {
        if c < comps.len() {
            assert!(!comps[c].is_empty(), "no empty component");

            for v in 0..N {
                if comps[c].contains(&v) {
                    assert!(comp_of[v] == usize::MAX, "components are pairwise disjoint");

                    comp_of[v] = c;
                }
            }

            assert!(!comps[c].contains(&N) && !comps[c].contains(&usize::MAX), "only vertices of the digraph");
        }
    }

    for u in 0..N {
        assert!(comp_of[u] != usize::MAX, "components cover V");

        for v in 0..N {
            assert!(
                (comp_of[u] == comp_of[v]) == (r[u][v] && r[v][u]),
                "same component iff mutually reachable"
            );
        }
    }

    kani::cover!(comps.len() == 1, "strongly connected");
    kani::cover!(comps.len() == 2, "two components");
    core::mem::forget(t);
}

/// AdjacencyMap with non-contiguous vertex ids {0, 2, 3}.
fn map_noncontiguous() {
    const IDS: [usize; 3] = [0, 2, 3];

    cx::set_vcap(8);

    let g = G::<3>::any();
    let r = g.reach_matrix();
    let mut d = AdjacencyMap::empty(1);
    let mut present = [false; 3];

    present[0] = true;

    for u in 0..3 {
        for v in 0..3 {
            if g.a[u][v] {
                d.add_arc(IDS[u], IDS[v]);
                present[u] = true;
                present[v] = true;
            }
        }
    }

    let mut t = Tarjan::new(&d);
    let comps = t.components();
    let mut comp_of = [usize::MAX; 3];

    for c in 0..3 {
        if c < comps.len() {
            for v in 0..3 {
                if comps[c].contains(&IDS[v]) {
                    assert!(comp_of[v] == usize::MAX, "components are pairwise disjoint");
                    assert!(present[v], "only vertices of the digraph");

                    comp_of[v] = c;
                }
            }

            assert!(
                !comps[c].contains(&1),
                "only vertices of the digraph"
            );
        }
    }

    assert!(comps.len() <= 3, "at most one component per vertex");

    for u in 0..3 {
        if present[u] {
            assert!(comp_of[u] != usize::MAX, "components cover V");

            for v in 0..3 {
                if present[v] {
                    assert!(
                        (comp_of[u] == comp_of[v]) == (r[u][v] && r[v][u]),
                        "same component iff mutually reachable"
                    );
                }
            }
        }
    }

    kani::cover!(present[1] && present[2] && comps.len() == 1, "strongly connected on {0, 2, 3}");
    core::mem::forget(t);
    core::mem::forget(d);
}

// Tarjan over every digraph on 3 vertices (generic code; set/map/Vec models for its state).
// @verif prop=C09 tier=exp fl=f2 feat=map4 role=array t=3600 mem=30 rec=::connect:4
#[cfg_attr(kani, kani::proof)]
#[cfg_attr(kani, kani::unwind(5))]
pub fn c09_array_n3() {
    array::<3>();
}

// Tarjan over AdjacencyMap digraphs with vertex set within {0, 2, 3}.
// @verif prop=C09 tier=exp fl=f2 feat=map4 role=map-noncontiguous t=3600 mem=30
#[cfg_attr(kani, kani::proof)]
#[cfg_attr(kani, kani::unwind(10))]
pub fn c09_map_noncontiguous() {
    map_noncontiguous();
}

// @verif prop=C09 tier=exp fl=f2 role=array t=3600 mem=24
#[cfg_attr(kani, kani::proof)]
#[cfg_attr(kani, kani::unwind(10))]
pub fn c09_array_n4() {
    array::<4>();
}
