//! Nondeterministic inputs. Only primitive `kani::any()` calls are made, one
//! per value, so that a counterexample's value list replays natively in call
//! order (see `kani_shim`).

#[cfg(not(kani))]
use crate::kani;

#[must_use]
pub fn bool() -> bool {
    kani::any()
}

#[must_use]
pub fn usize() -> usize {
    kani::any()
}

#[must_use]
pub fn isize() -> isize {
    kani::any()
}

#[must_use]
pub fn u64() -> u64 {
    kani::any()
}

#[must_use]
pub fn u8() -> u8 {
    kani::any()
}

#[must_use]
pub fn f64() -> f64 {
    kani::any()
}

/// Any value `< n`.
#[must_use]
pub fn below(n: usize) -> usize {
    let x = usize();

    kani::assume(x < n);

    x
}

/// Any value in `lo..=hi`.
#[must_use]
pub fn irange(lo: isize, hi: isize) -> isize {
    let x = isize();

    kani::assume(lo <= x && x <= hi);

    x
}

#[must_use]
pub fn bools<const N: usize>() -> [bool; N] {
    let mut a = [false; N];
    let mut i = 0;

    while i < N {
        a[i] = bool();
        i += 1;
    }

    a
}

/// `None` or `Some(x)` with `x < n`.
#[must_use]
pub fn opt_below(n: usize) -> Option<usize> {
    if bool() {
        Some(below(n))
    } else {
        None
    }
}
