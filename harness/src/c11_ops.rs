//! C11 — complement, converse, union and vertex filtering compute their set
//! definitions.

use {
    crate::{
        cx,
        nd,
        oracle::G,
    },
    graaf::{
        AddArc,
        AddArcWeighted,
        AdjacencyList,
        AdjacencyListWeighted,
        AdjacencyMap,
        AdjacencyMatrix,
        ArcWeight,
        Arcs,
        Complement,
        Converse,
        EdgeList,
        Empty,
        FilterVertices,
        HasArc,
        Order,
        RemoveArc,
        Size,
        Union,
        Vertices,
    },
};

#[cfg(not(kani))]
use crate::kani;

pub trait Rep:
    Empty + AddArc + HasArc + Size + Order + Arcs + Vertices + Clone + PartialEq
{
}

impl Rep for AdjacencyList {}
impl Rep for AdjacencyMap {}
impl Rep for AdjacencyMatrix {}
impl Rep for EdgeList {}

fn build<R: Rep, const N: usize>(g: &G<N>) -> R {
    let mut d = R::empty(N);

    for u in 0..N {
        for v in 0..N {
            if g.a[u][v] {
                d.add_arc(u, v);
            }
        }
    }

    d
}

/// `d` is exactly the digraph (0..n, arcs of `m` restricted to 0..n) and lists
/// nothing else; X >= n bounds the ids that are probed.
fn same<R: Rep, const X: usize>(d: &R, n: usize, m: &[[bool; X]; X]) {
    let mut size = 0;
    let mut arcs = d.arcs();

    assert!(d.order() == n, "result has the defined vertex set");

    for u in 0..X {
        for v in 0..X {
            let def = u < n && v < n && m[u][v];

            assert!(d.has_arc(u, v) == def, "result contains exactly the defined arcs");

            if def {
                size += 1;

                assert!(arcs.next() == Some((u, v)), "arcs() of the result lists exactly the defined arcs");
                assert!(u != v, "no self-loop in the result");
            }
        }
    }

    assert!(arcs.next().is_none(), "arcs() of the result lists nothing else");
    assert!(d.size() == size, "size of the result");
}

fn symbolic_threads(cfg: usize) -> usize {
    cx::threads(cfg)
}

pub fn complement<R: Rep + Complement, const N: usize>(cfg: usize) {
    let pmax = cx::threads_max(cfg);

    cx::set_vcap(N.max(pmax) + 1);

    let p = symbolic_threads(cfg);
    let g = G::<N>::any();
    let d = build::<R, N>(&g);
    let before = d.clone();
    let c = d.complement();
    let mut want = [[false; N]; N];

    for u in 0..N {
        for v in 0..N {
            want[u][v] = u != v && !g.a[u][v];
        }
    }

    same::<R, N>(&c, N, &want);
    assert!(d == before, "the operand is unchanged");

    let cc = c.complement();

    assert!(cc == d, "complement is an involution");
    kani::cover!(cfg >= cx::EXACT || pmax <= N || p > N, "more threads than vertices");
    kani::cover!(cfg >= cx::EXACT || pmax < 2 || N < 3 || (p > 1 && p < N), "fewer threads than vertices: chunks of several rows");
    core::mem::forget(d);
    core::mem::forget(before);
    core::mem::forget(c);
    core::mem::forget(cc);
}

fn converse<R: Rep + Converse, const N: usize>() {
    cx::set_vcap(N + 1);
    cx::set_parallelism(1);

    let g = G::<N>::any();
    let d = build::<R, N>(&g);
    let before = d.clone();
    let c = d.converse();
    let mut want = [[false; N]; N];

    for u in 0..N {
        for v in 0..N {
            want[u][v] = g.a[v][u];
        }
    }

    same::<R, N>(&c, N, &want);
    assert!(d == before, "the operand is unchanged");

    let cc = c.converse();

    assert!(cc == d, "converse is an involution");
    core::mem::forget(d);
    core::mem::forget(before);
    core::mem::forget(c);
    core::mem::forget(cc);
}

/// union of a digraph of order N and one of order M (X = max(N, M)).
pub fn union<R: Rep + Union, const N: usize, const M: usize, const X: usize>(cfg: usize) {
    let pmax = cx::threads_max(cfg);

    cx::set_vcap((2 * X).max(pmax) + 1);

    let p = symbolic_threads(cfg);
    let g = G::<N>::any();
    let h = G::<M>::any();
    let d = build::<R, N>(&g);
    let e = build::<R, M>(&h);
    let (d0, e0) = (d.clone(), e.clone());
    let u1 = d.union(&e);
    let mut want = [[false; X]; X];

    for u in 0..X {
        for v in 0..X {
            want[u][v] = (u < N && v < N && g.a[u][v]) || (u < M && v < M && h.a[u][v]);
        }
    }

    same::<R, X>(&u1, X, &want);
    assert!(d == d0 && e == e0, "the operands are unchanged");

    let u2 = e.union(&d);

    assert!(u1 == u2, "union is commutative");
    kani::cover!(cfg >= cx::EXACT || pmax <= X || p > X, "more threads than rows");
    kani::cover!(cfg >= cx::EXACT || pmax < 2 || p == 2, "two threads");
    core::mem::forget(d);
    core::mem::forget(e);
    core::mem::forget(d0);
    core::mem::forget(e0);
    core::mem::forget(u1);
    core::mem::forget(u2);
}

fn union_idempotent<R: Rep + Union, const N: usize>(cfg: usize) {
    let pmax = cx::threads_max(cfg);

    cx::set_vcap((2 * N).max(pmax) + 1);

    let _ = symbolic_threads(cfg);
    let g = G::<N>::any();
    let d = build::<R, N>(&g);
    let u = d.union(&d);

    assert!(u == d, "union is idempotent");
    core::mem::forget(d);
    core::mem::forget(u);
}

/// filter_vertices on AdjacencyMap: induced subdigraph.
fn filter<const N: usize>() {
    cx::set_vcap(N + 1);

    let g = G::<N>::any();
    let keep: [bool; N] = nd::bools();
    let d = build::<AdjacencyMap, N>(&g);
    let before = d.clone();
    let f = d.filter_vertices(|v| v < N && keep[v]);
    let mut order = 0;

    {
        let mut vs = f.vertices();
        let mut arcs = f.arcs();

        for u in 0..N {
            if keep[u] {
                order += 1;

                assert!(vs.next() == Some(u), "vertex set = the vertices satisfying the predicate");
            }

            for v in 0..N {
                let def = keep[u] && keep[v] && g.a[u][v];

                assert!(f.has_arc(u, v) == def, "arc set = arcs induced by the kept vertices");

                if def {
                    assert!(arcs.next() == Some((u, v)), "arcs() lists the induced arcs");
                }
            }
        }

        assert!(vs.next().is_none(), "no other vertex");
        assert!(arcs.next().is_none(), "no other arc");
    }

    assert!(f.order() == order, "order of the induced subdigraph");
    assert!(d == before, "the operand is unchanged");
    kani::cover!(order == N - 1 && f.size() == 0 && g.size() > 0, "a kept vertex with no kept neighbour");
    core::mem::forget(d);
    core::mem::forget(before);
    core::mem::forget(f);
}

/// converse of AdjacencyListWeighted carries the weights over.
fn converse_weighted<const N: usize>() {
    cx::set_vcap(N + 1);

    let mut d = AdjacencyListWeighted::<usize>::empty(N);
    let mut m = [[None::<usize>; N]; N];

    for u in 0..N {
        for v in 0..N {
            if u != v && nd::bool() {
                let w = nd::usize();

                d.add_arc_weighted(u, v, w);
                m[u][v] = Some(w);
            }
        }
    }

    let before = d.clone();
    let c = d.converse();

    assert!(c.order() == N, "same vertex set");

    for u in 0..N {
        for v in 0..N {
            assert!(c.arc_weight(u, v).copied() == m[v][u], "v -> u with the weight of u -> v");
        }
    }

    assert!(d == before, "the operand is unchanged");
    assert!(c.converse() == d, "converse is an involution");
    core::mem::forget(d);
    core::mem::forget(before);
    core::mem::forget(c);
}

/// AdjacencyMap on the non-contiguous vertex set {0, 2, 3}: complement and
/// converse must stay within V.
fn map_noncontiguous(which: usize) {
    const IDS: [usize; 3] = [0, 2, 3];

    cx::set_vcap(8);

    let g = G::<3>::any();
    let mut d = AdjacencyMap::empty(1);

    // make all three ids vertices (add then remove an arc), then load g
    d.add_arc(0, 2);
    d.add_arc(2, 3);
    let _ = d.remove_arc(0, 2);
    let _ = d.remove_arc(2, 3);

    for u in 0..3 {
        for v in 0..3 {
            if g.a[u][v] {
                d.add_arc(IDS[u], IDS[v]);
            }
        }
    }

    let before = d.clone();
    let r = if which == 0 { d.complement() } else { d.converse() };

    {
        let mut vs = r.vertices();

        for u in 0..3 {
            assert!(vs.next() == Some(IDS[u]), "result has vertex set V");
        }

        assert!(vs.next().is_none(), "result has vertex set V");
    }

    for u in 0..3 {
        for v in 0..3 {
            let def = if which == 0 { u != v && !g.a[u][v] } else { g.a[v][u] };

            assert!(r.has_arc(IDS[u], IDS[v]) == def, "result contains exactly the defined arcs");
        }

        for x in [1_usize] {
            assert!(!r.has_arc(IDS[u], x) && !r.has_arc(x, IDS[u]), "no endpoint outside V");
        }
    }

    assert!(d == before, "the operand is unchanged");
    core::mem::forget(d);
    core::mem::forget(before);
    core::mem::forget(r);
}

// AdjacencyList::complement (threaded) on every digraph of order 3 with 2 worker threads (chunks of 2 and 1 rows).
// @verif prop=C11 tier=quick fl=f2 role=complement/adjacency-list t=2400 mem=24 par=2
#[cfg_attr(kani, kani::proof)]
#[cfg_attr(kani, kani::unwind(8))]
pub fn c11_complement_adjacency_list_n3_t2() {
    complement::<AdjacencyList, 3>(cx::EXACT + 2);
}

// The same with the thread count symbolic in 1..=4 (all chunkings in one query).
// @verif prop=C11 tier=exp fl=f2 role=complement/adjacency-list t=3600 mem=30
#[cfg_attr(kani, kani::proof)]
#[cfg_attr(kani, kani::unwind(8))]
pub fn c11_complement_adjacency_list_n3_p4() {
    complement::<AdjacencyList, 3>(4);
}

// @verif prop=C11 tier=quick fl=f0 role=complement/matrix t=1200 mem=12
#[cfg_attr(kani, kani::proof)]
#[cfg_attr(kani, kani::unwind(10))]
pub fn c11_complement_matrix_n3() {
    complement::<AdjacencyMatrix, 3>(1);
}

// @verif prop=C11 tier=quick fl=f1 role=complement/edge-list t=1200 mem=12
#[cfg_attr(kani, kani::proof)]
#[cfg_attr(kani, kani::unwind(8))]
pub fn c11_complement_edge_list_n3() {
    complement::<EdgeList, 3>(1);
}

// @verif prop=C11 tier=thorough fl=f1 feat=map4 role=complement/adjacency-map t=3600 mem=16
#[cfg_attr(kani, kani::proof)]
#[cfg_attr(kani, kani::unwind(10))]
pub fn c11_complement_adjacency_map_n3() {
    complement::<AdjacencyMap, 3>(1);
}

// @verif prop=C11 tier=quick fl=f2 role=converse/adjacency-list t=1200 mem=12
#[cfg_attr(kani, kani::proof)]
#[cfg_attr(kani, kani::unwind(8))]
pub fn c11_converse_adjacency_list_n3() {
    converse::<AdjacencyList, 3>();
}

// @verif prop=C11 tier=quick fl=f0 role=converse/matrix t=1200 mem=12
#[cfg_attr(kani, kani::proof)]
#[cfg_attr(kani, kani::unwind(10))]
pub fn c11_converse_matrix_n3() {
    converse::<AdjacencyMatrix, 3>();
}

// @verif prop=C11 tier=quick fl=f1 role=converse/edge-list t=1200 mem=12
#[cfg_attr(kani, kani::proof)]
#[cfg_attr(kani, kani::unwind(8))]
pub fn c11_converse_edge_list_n3() {
    converse::<EdgeList, 3>();
}

// @verif prop=C11 tier=thorough fl=f2 feat=map4 role=converse/adjacency-map t=3600 mem=24
#[cfg_attr(kani, kani::proof)]
#[cfg_attr(kani, kani::unwind(10))]
pub fn c11_converse_adjacency_map_n3() {
    converse::<AdjacencyMap, 3>();
}

// @verif prop=C11 tier=quick fl=f2 feat=map4 role=converse/weighted t=1200 mem=12
#[cfg_attr(kani, kani::proof)]
#[cfg_attr(kani, kani::unwind(10))]
pub fn c11_converse_weighted_n3() {
    converse_weighted::<3>();
}

// AdjacencyList::union (threaded) of every order-2 with every order-3 digraph, 2 worker threads.
// @verif prop=C11 tier=exp fl=f2 role=union/adjacency-list t=3600 mem=30 par=2
#[cfg_attr(kani, kani::proof)]
#[cfg_attr(kani, kani::unwind(8))]
pub fn c11_union_adjacency_list_n2_m3_t2() {
    union::<AdjacencyList, 2, 3, 3>(cx::EXACT + 2);
}

// @verif prop=C11 tier=exp fl=f2 role=union/adjacency-list t=3600 mem=30
#[cfg_attr(kani, kani::proof)]
#[cfg_attr(kani, kani::unwind(8))]
pub fn c11_union_adjacency_list_n2_m3_p4() {
    union::<AdjacencyList, 2, 3, 3>(4);
}

// @verif prop=C11 tier=quick fl=f0 role=union/matrix t=1200 mem=12
#[cfg_attr(kani, kani::proof)]
#[cfg_attr(kani, kani::unwind(10))]
pub fn c11_union_matrix_n2_m3() {
    union::<AdjacencyMatrix, 2, 3, 3>(1);
}

// @verif prop=C11 tier=quick fl=f1 role=union/edge-list t=1200 mem=12
#[cfg_attr(kani, kani::proof)]
#[cfg_attr(kani, kani::unwind(8))]
pub fn c11_union_edge_list_n3_m2() {
    union::<EdgeList, 3, 2, 3>(1);
}

// AdjacencyMap::union (merge-path partitioning over threads), orders 2 and 2, 2 worker threads.
// @verif prop=C11 tier=exp fl=f2 feat=map4 role=union/adjacency-map t=3600 mem=30 par=2
#[cfg_attr(kani, kani::proof)]
#[cfg_attr(kani, kani::unwind(8))]
pub fn c11_union_adjacency_map_n2_m2_t2() {
    union::<AdjacencyMap, 2, 2, 2>(cx::EXACT + 2);
}

// @verif prop=C11 tier=exp fl=f2 feat=map4 role=union/adjacency-map t=3600 mem=30
#[cfg_attr(kani, kani::proof)]
#[cfg_attr(kani, kani::unwind(8))]
pub fn c11_union_adjacency_map_n2_m2_p4() {
    union::<AdjacencyMap, 2, 2, 2>(4);
}

// @verif prop=C11 tier=thorough fl=f2 feat=map4 role=filter/adjacency-map t=3600 mem=16
#[cfg_attr(kani, kani::proof)]
#[cfg_attr(kani, kani::unwind(10))]
pub fn c11_filter_adjacency_map_n3() {
    filter::<3>();
}

// @verif prop=C11 tier=quick fl=f2 feat=map4 role=complement/adjacency-map-noncontiguous t=1200 mem=12
#[cfg_attr(kani, kani::proof)]
#[cfg_attr(kani, kani::unwind(10))]
pub fn c11_complement_map_noncontiguous() {
    map_noncontiguous(0);
}

// @verif prop=C11 tier=quick fl=f2 feat=map4 role=converse/adjacency-map-noncontiguous t=1200 mem=12
#[cfg_attr(kani, kani::proof)]
#[cfg_attr(kani, kani::unwind(10))]
pub fn c11_converse_map_noncontiguous() {
    map_noncontiguous(1);
}

// @verif prop=C11 tier=exp fl=f2 role=union-idempotent/adjacency-list t=1800 mem=16
#[cfg_attr(kani, kani::proof)]
#[cfg_attr(kani, kani::unwind(8))]
pub fn c11_union_idempotent_adjacency_list_n3_p4() {
    union_idempotent::<AdjacencyList, 3>(4);
}

// @verif prop=C11 tier=exp fl=f2 role=complement/adjacency-list t=3600 mem=24
#[cfg_attr(kani, kani::proof)]
#[cfg_attr(kani, kani::unwind(8))]
pub fn c11_complement_adjacency_list_n4_p6() {
    complement::<AdjacencyList, 4>(6);
}

// AdjacencyMap complement / converse / filter_vertices on every digraph of order 2 (quick); order 3 is thorough.
// @verif prop=C11 tier=quick fl=f1 feat=map4 role=complement/adjacency-map t=1200 mem=16
#[cfg_attr(kani, kani::proof)]
#[cfg_attr(kani, kani::unwind(8))]
pub fn c11_complement_adjacency_map_n2() {
    complement::<AdjacencyMap, 2>(1);
}

// @verif prop=C11 tier=quick fl=f2 feat=map4 role=converse/adjacency-map t=1200 mem=16
#[cfg_attr(kani, kani::proof)]
#[cfg_attr(kani, kani::unwind(8))]
pub fn c11_converse_adjacency_map_n2() {
    converse::<AdjacencyMap, 2>();
}

// @verif prop=C11 tier=quick fl=f2 feat=map4 role=filter/adjacency-map t=1500 mem=30
#[cfg_attr(kani, kani::proof)]
#[cfg_attr(kani, kani::unwind(8))]
pub fn c11_filter_adjacency_map_n2() {
    filter::<2>();
}

// AdjacencyList::union of every order-1 with every order-2 digraph, 2 worker threads.
// (thorough only: CBMC reports a "misaligned pointer to reference cast" in slice::from_raw_parts on this
// path that neither a native run nor Miri confirms; the run then ends inconclusive, exit 2.)
// @verif prop=C11 tier=exp fl=f2 role=union/adjacency-list t=1500 mem=24 par=2
#[cfg_attr(kani, kani::proof)]
#[cfg_attr(kani, kani::unwind(8))]
pub fn c11_union_adjacency_list_n1_m2_t2() {
    union::<AdjacencyList, 1, 2, 2>(cx::EXACT + 2);
}
