//! C08 — Floyd-Warshall returns the exact all-pairs distance matrix.

use {
    crate::{
        cx,
        nd,
        oracle::{
            IINF,
            WG,
        },
    },
    graaf::{
        AddArcWeighted,
        AdjacencyListWeighted,
        Empty,
        FloydWarshall,
    },
};

#[cfg(not(kani))]
use crate::kani;

fn any_dense<const N: usize>(lo: isize, hi: isize) -> WG<N, isize> {
    let mut g = WG::<N, isize>::empty();

    for u in 0..N {
        for v in 0..N {
            if u != v && nd::bool() {
                g.w[u][v] = Some(nd::irange(lo, hi));
            }
        }
    }

    g
}

pub fn dense<const N: usize>(lo: isize, hi: isize) {
    cx::set_vcap(N * N);

    let g = any_dense::<N>(lo, hi);
    let (want, neg) = g.apsp();

    kani::assume(!neg);

    let mut fw = FloydWarshall::new(&g);
    let d = fw.distances();

    for u in 0..N {
        let (row, _) = g.bf(u);

        for v in 0..N {
            assert!(d[(u, v)] == want[u][v], "distances()[(u, v)] = min walk weight, MAX iff unreachable");
            assert!(d[(u, v)] == row[v], "row s equals Bellman-Ford from s");
        }

        assert!(d[(u, u)] == 0, "0 on the diagonal");
    }

    kani::cover!(want[0][N - 1] == IINF, "an unreachable pair");
    kani::cover!(want[0][N - 1] < 0, "a negative distance");
    core::mem::forget(fw);
}

fn repr<const N: usize>(lo: isize, hi: isize) {
    cx::set_vcap(N * N);

    let g = any_dense::<N>(lo, hi);
    let (want, neg) = g.apsp();

    kani::assume(!neg);

    let mut d = AdjacencyListWeighted::<isize>::empty(N);

    for u in 0..N {
        for v in 0..N {
            if let Some(w) = g.w[u][v] {
                d.add_arc_weighted(u, v, w);
            }
        }
    }

    let mut fw = FloydWarshall::new(&d);
    let dist = fw.distances();

    for u in 0..N {
        for v in 0..N {
            assert!(dist[(u, v)] == want[u][v], "distances()[(u, v)] = min walk weight, MAX iff unreachable");
        }
    }

    core::mem::forget(fw);
    core::mem::forget(d);
}

// Every arc-weighted digraph on 2 vertices, weights -4..=8.
// @verif prop=C08 tier=quick fl=f2 role=dense/array t=1200 mem=14
#[cfg_attr(kani, kani::proof)]
#[cfg_attr(kani, kani::unwind(6))]
pub fn c08_dense_n2() {
    dense::<2>(-4, 8);
}

// Every arc-weighted digraph on 3 vertices, weights -1..=2, no negative circuit.
// @verif prop=C08 tier=quick fl=f2 role=dense/array t=1800 mem=16
#[cfg_attr(kani, kani::proof)]
#[cfg_attr(kani, kani::unwind(11))]
pub fn c08_dense_n3_w2() {
    dense::<3>(-1, 2);
}

// Through AdjacencyListWeighted<isize> (map model), 2 vertices.
// @verif prop=C08 tier=quick fl=f2 feat=map4 role=dense/repr t=1500 mem=16
#[cfg_attr(kani, kani::proof)]
#[cfg_attr(kani, kani::unwind(8))]
pub fn c08_repr_n2() {
    repr::<2>(-4, 8);
}

// Every arc-weighted digraph on 3 vertices, weights -4..=8, no negative circuit (assumed via the oracle).
// @verif prop=C08 tier=thorough fl=f2 role=dense/array t=3600 mem=16
#[cfg_attr(kani, kani::proof)]
#[cfg_attr(kani, kani::unwind(11))]
pub fn c08_dense_n3() {
    dense::<3>(-4, 8);
}

// Through AdjacencyListWeighted<isize> (map model), 3 vertices.
// @verif prop=C08 tier=exp fl=f2 feat=map4 role=dense/repr t=3600 mem=30
#[cfg_attr(kani, kani::proof)]
#[cfg_attr(kani, kani::unwind(11))]
pub fn c08_repr_n3() {
    repr::<3>(-4, 8);
}

// @verif prop=C08 tier=exp fl=f2 role=dense/array t=3600 mem=24
#[cfg_attr(kani, kani::proof)]
#[cfg_attr(kani, kani::unwind(18))]
pub fn c08_dense_n4() {
    dense::<4>(-4, 8);
}
