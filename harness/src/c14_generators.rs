//! C14 — deterministic generators produce exactly their defining arc sets.
//!
//! The order is concrete per harness instance (so the solver adds little over
//! running the code, see DESIGN.md); what is symbolic: the thread count `p` of
//! the parallel `AdjacencyList::complete`, and the inadmissible parameters of
//! the `*_rejects` harnesses.

use {
    crate::{
        cx,
        nd,
    },
    graaf::{
        AdjacencyList,
        AdjacencyMap,
        AdjacencyMatrix,
        Arcs,
        Biclique,
        Circuit,
        Complete,
        Cycle,
        EdgeList,
        Empty,
        HasArc,
        Order,
        Path,
        Size,
        Star,
        Vertices,
        Wheel,
    },
};

#[cfg(not(kani))]
use crate::kani;

pub trait Rep:
    Empty + Complete + Circuit + Cycle + Path + Star + Wheel + Biclique + HasArc + Order + Size + Arcs + Vertices
{
}

impl Rep for AdjacencyList {}
impl Rep for AdjacencyMap {}
impl Rep for AdjacencyMatrix {}
impl Rep for EdgeList {}

/// `d` has vertex set 0..n and exactly the arcs for which `def` is true.
fn is<R: Rep>(d: &R, n: usize, def: impl Fn(usize, usize) -> bool) {
    assert!(d.order() == n, "order of the generated digraph");

    let mut size = 0;

    {
        let mut arcs = d.arcs();
        let mut vs = d.vertices();

        for u in 0..n {
            assert!(vs.next() == Some(u), "vertex set 0..order");

            for v in 0..n {
                let want = u != v && def(u, v);

                assert!(d.has_arc(u, v) == want, "exactly the defining arc set");

                if want {
                    size += 1;

                    assert!(arcs.next() == Some((u, v)), "arcs() lists the defining arc set");
                }
            }

            assert!(!d.has_arc(u, n) && !d.has_arc(n, u), "no arc outside the vertex set");
        }

        assert!(arcs.next().is_none(), "arcs() lists nothing else");
        assert!(vs.next().is_none(), "vertex set 0..order");
    }

    assert!(d.size() == size, "size of the generated digraph");
}

/// Lighter comparison for larger orders: membership of every pair and the
/// size (no iteration of arcs() / vertices()).
fn is_light<R: Rep>(d: &R, n: usize, def: impl Fn(usize, usize) -> bool) {
    assert!(d.order() == n, "order of the generated digraph");

    let mut size = 0;

    for u in 0..n {
        for v in 0..n {
            let want = u != v && def(u, v);

            assert!(d.has_arc(u, v) == want, "exactly the defining arc set");

            if want {
                size += 1;
            }
        }
    }

    assert!(d.size() == size, "size of the generated digraph");
}

/// complete / empty / circuit / star at one (larger) order.
fn some_at<R: Rep>(n: usize) {
    cx::set_vcap(n + 1);
    cx::set_parallelism(1);

    let d = R::complete(n);

    is_light(&d, n, |_, _| true);
    core::mem::forget(d);

    let d = R::empty(n);

    is_light(&d, n, |_, _| false);
    core::mem::forget(d);

    let d = R::circuit(n);

    is_light(&d, n, |u, v| v == (u + 1) % n);
    core::mem::forget(d);

    let d = R::star(n);

    is_light(&d, n, |u, v| u == 0 || v == 0);
    core::mem::forget(d);
}

fn all_at<R: Rep>(n: usize) {
    let d = R::empty(n);

    is(&d, n, |_, _| false);
    core::mem::forget(d);

    let d = R::complete(n);

    is(&d, n, |_, _| true);
    core::mem::forget(d);

    let d = R::circuit(n);

    is(&d, n, |u, v| v == (u + 1) % n);
    core::mem::forget(d);

    let d = R::cycle(n);

    is(&d, n, |u, v| v == (u + 1) % n || u == (v + 1) % n);
    core::mem::forget(d);

    let d = R::path(n);

    is(&d, n, |u, v| v == u + 1);
    core::mem::forget(d);

    let d = R::star(n);

    is(&d, n, |u, v| u == 0 || v == 0);
    core::mem::forget(d);

    if n >= 4 {
        let d = R::wheel(n);
        let rim = n - 1;

        is(&d, n, |u, v| {
            u == 0
                || v == 0
                || (u >= 1 && v >= 1 && ((v - 1) == (u - 1 + 1) % rim || (u - 1) == (v - 1 + 1) % rim))
        });
        core::mem::forget(d);
    }
}

fn bicliques<R: Rep>(mmax: usize, nmax: usize) {
    for m in 1..=mmax {
        for n in 1..=nmax {
            let d = R::biclique(m, n);

            is(&d, m + n, |u, v| (u < m) != (v < m));
            core::mem::forget(d);
        }
    }
}

fn named<R: Rep + graaf::Empty + graaf::Biclique>() {
    let d = R::trivial();

    is(&d, 1, |_, _| false);
    core::mem::forget(d);

    let d = R::claw();

    is(&d, 4, |u, v| (u < 1) != (v < 1));
    core::mem::forget(d);

    let d = R::utility();

    is(&d, 6, |u, v| (u < 3) != (v < 3));
    core::mem::forget(d);
}

/// AdjacencyList::complete under every thread count in 1..=pmax.
pub fn complete_threads(n: usize, cfg: usize) {
    let pmax = cx::threads_max(cfg);

    cx::set_vcap(n.max(pmax) + 1);

    let p = cx::threads(cfg);

    let d = AdjacencyList::complete(n);

    is(&d, n, |_, _| true);
    kani::cover!(pmax <= n || p > n, "more threads than rows");
    kani::cover!(cfg >= cx::EXACT || (p > 1 && n % p != 0), "rows not a multiple of the chunk count");
    core::mem::forget(d);
}

/// Inadmissible parameters: every generator must panic.
fn rejects<R: Rep>() {
    cx::set_vcap(8);
    cx::set_parallelism(1);

    let which = nd::below(9);

    match which {
        0 => core::mem::forget(R::empty(0)),
        1 => core::mem::forget(R::complete(0)),
        2 => core::mem::forget(R::circuit(0)),
        3 => core::mem::forget(R::cycle(0)),
        4 => core::mem::forget(R::path(0)),
        5 => core::mem::forget(R::star(0)),
        6 => match nd::below(4) {
            0 => core::mem::forget(R::wheel(0)),
            1 => core::mem::forget(R::wheel(1)),
            2 => core::mem::forget(R::wheel(2)),
            _ => core::mem::forget(R::wheel(3)),
        },
        7 => match nd::below(3) {
            0 => core::mem::forget(R::biclique(0, 0)),
            1 => core::mem::forget(R::biclique(0, 1)),
            _ => core::mem::forget(R::biclique(0, 2)),
        },
        _ => match nd::below(2) {
            0 => core::mem::forget(R::biclique(1, 0)),
            _ => core::mem::forget(R::biclique(2, 0)),
        },
    }

    crate::rejected_call_returned();
}

fn all_at_light<R: Rep>(n: usize) {
    let d = R::empty(n);

    is_light(&d, n, |_, _| false);
    core::mem::forget(d);

    let d = R::complete(n);

    is_light(&d, n, |_, _| true);
    core::mem::forget(d);

    let d = R::circuit(n);

    is_light(&d, n, |u, v| v == (u + 1) % n);
    core::mem::forget(d);

    let d = R::cycle(n);

    is_light(&d, n, |u, v| v == (u + 1) % n || u == (v + 1) % n);
    core::mem::forget(d);

    let d = R::path(n);

    is_light(&d, n, |u, v| v == u + 1);
    core::mem::forget(d);

    let d = R::star(n);

    is_light(&d, n, |u, v| u == 0 || v == 0);
    core::mem::forget(d);

    if n >= 4 {
        let d = R::wheel(n);
        let rim = n - 1;

        is_light(&d, n, |u, v| {
            u == 0
                || v == 0
                || (u >= 1 && v >= 1 && ((v - 1) == (u - 1 + 1) % rim || (u - 1) == (v - 1 + 1) % rim))
        });
        core::mem::forget(d);
    }
}

fn orders_light<R: Rep>(lo: usize, hi: usize) {
    cx::set_vcap(hi + 1);
    cx::set_parallelism(1);

    for n in lo..=hi {
        all_at_light::<R>(n);
    }
}

fn orders<R: Rep>(lo: usize, hi: usize) {
    cx::set_vcap(hi + 1);
    cx::set_parallelism(1);

    for n in lo..=hi {
        all_at::<R>(n);
    }
}

// AdjacencyMatrix (real std): every generator at orders 1..=3 with full comparison (arcs(), vertices()).
// @verif prop=C14 tier=quick fl=f0 role=orders/matrix t=1200 mem=12
#[cfg_attr(kani, kani::proof)]
#[cfg_attr(kani, kani::unwind(8))]
pub fn c14_matrix_orders_1_3() {
    orders::<AdjacencyMatrix>(1, 3);
}

// AdjacencyMatrix: every generator at orders 4 and 5 (wheel included).
// @verif prop=C14 tier=quick fl=f0 role=orders/matrix t=1500 mem=14
#[cfg_attr(kani, kani::proof)]
#[cfg_attr(kani, kani::unwind(8))]
pub fn c14_matrix_orders_4_5() {
    orders_light::<AdjacencyMatrix>(4, 5);
}

// AdjacencyMatrix at order 8: 64 cells = exactly one 64-bit block (complete, empty, circuit, star).
// @verif prop=C14 tier=quick fl=f0 role=orders/matrix-block-boundary t=1800 mem=16
#[cfg_attr(kani, kani::proof)]
#[cfg_attr(kani, kani::unwind(11))]
pub fn c14_matrix_order_8() {
    some_at::<AdjacencyMatrix>(8);
}

// AdjacencyMatrix at order 9: 81 cells = across the block boundary.
// @verif prop=C14 tier=quick fl=f0 role=orders/matrix-block-boundary t=1800 mem=16
#[cfg_attr(kani, kani::proof)]
#[cfg_attr(kani, kani::unwind(12))]
pub fn c14_matrix_order_9() {
    some_at::<AdjacencyMatrix>(9);
}

// @verif prop=C14 tier=quick fl=f1 role=orders/edge-list t=1200 mem=12
#[cfg_attr(kani, kani::proof)]
#[cfg_attr(kani, kani::unwind(9))]
pub fn c14_edge_list_orders_1_3() {
    orders::<EdgeList>(1, 3);
}

// @verif prop=C14 tier=quick fl=f1 role=orders/edge-list t=1500 mem=14
#[cfg_attr(kani, kani::proof)]
#[cfg_attr(kani, kani::unwind(22))]
pub fn c14_edge_list_orders_4_5() {
    orders_light::<EdgeList>(4, 5);
}

// @verif prop=C14 tier=quick fl=f2 role=orders/adjacency-list t=1200 mem=12
#[cfg_attr(kani, kani::proof)]
#[cfg_attr(kani, kani::unwind(9))]
pub fn c14_adjacency_list_orders_1_3() {
    orders::<AdjacencyList>(1, 3);
}

// @verif prop=C14 tier=quick fl=f2 role=orders/adjacency-list t=1500 mem=14
#[cfg_attr(kani, kani::proof)]
#[cfg_attr(kani, kani::unwind(8))]
pub fn c14_adjacency_list_orders_4_5() {
    orders_light::<AdjacencyList>(4, 5);
}

// @verif prop=C14 tier=quick fl=f1 feat=map4 role=orders/adjacency-map t=1200 mem=12
#[cfg_attr(kani, kani::proof)]
#[cfg_attr(kani, kani::unwind(9))]
pub fn c14_adjacency_map_orders_1_3() {
    orders::<AdjacencyMap>(1, 3);
}

// @verif prop=C14 tier=quick fl=f1 role=orders/adjacency-map t=1500 mem=14
#[cfg_attr(kani, kani::proof)]
#[cfg_attr(kani, kani::unwind(10))]
pub fn c14_adjacency_map_orders_4_5() {
    orders_light::<AdjacencyMap>(4, 5);
}

// biclique(m, n) for m, n in 1..=2 and trivial / claw / utility, AdjacencyMatrix.
// @verif prop=C14 tier=quick fl=f0 role=biclique/matrix t=1200 mem=12
#[cfg_attr(kani, kani::proof)]
#[cfg_attr(kani, kani::unwind(9))]
pub fn c14_matrix_bicliques() {
    cx::set_vcap(8);
    bicliques::<AdjacencyMatrix>(2, 2);
    named::<AdjacencyMatrix>();
}

// @verif prop=C14 tier=quick fl=f1 role=biclique/edge-list t=1200 mem=12
#[cfg_attr(kani, kani::proof)]
#[cfg_attr(kani, kani::unwind(20))]
pub fn c14_edge_list_bicliques() {
    cx::set_vcap(8);
    bicliques::<EdgeList>(2, 2);
    named::<EdgeList>();
}

// @verif prop=C14 tier=quick fl=f2 role=biclique/adjacency-list t=1200 mem=12
#[cfg_attr(kani, kani::proof)]
#[cfg_attr(kani, kani::unwind(9))]
pub fn c14_adjacency_list_bicliques() {
    cx::set_vcap(8);
    bicliques::<AdjacencyList>(2, 2);
    named::<AdjacencyList>();
}

// @verif prop=C14 tier=quick fl=f1 role=biclique/adjacency-map t=1200 mem=12
#[cfg_attr(kani, kani::proof)]
#[cfg_attr(kani, kani::unwind(10))]
pub fn c14_adjacency_map_bicliques() {
    cx::set_vcap(8);
    bicliques::<AdjacencyMap>(2, 2);
    named::<AdjacencyMap>();
}

// AdjacencyList::complete(5) with 2 worker threads (chunks of 3 and 2 rows).
// @verif prop=C14 tier=quick fl=f2 role=complete-threads/adjacency-list t=1500 mem=14 par=2
#[cfg_attr(kani, kani::proof)]
#[cfg_attr(kani, kani::unwind(10))]
pub fn c14_complete_threads_n5_t2() {
    complete_threads(5, cx::EXACT + 2);
}

// @verif prop=C14 tier=quick fl=f0 role=rejects/matrix t=1200 mem=12 expect=panic
#[cfg_attr(kani, kani::proof)]
#[cfg_attr(kani, kani::unwind(8))]
pub fn c14_rejects_matrix() {
    rejects::<AdjacencyMatrix>();
}

// @verif prop=C14 tier=quick fl=f1 role=rejects/edge-list t=1200 mem=12 expect=panic
#[cfg_attr(kani, kani::proof)]
#[cfg_attr(kani, kani::unwind(8))]
pub fn c14_rejects_edge_list() {
    rejects::<EdgeList>();
}

// @verif prop=C14 tier=quick fl=f2 role=rejects/adjacency-list t=1200 mem=12 expect=panic
#[cfg_attr(kani, kani::proof)]
#[cfg_attr(kani, kani::unwind(8))]
pub fn c14_rejects_adjacency_list() {
    rejects::<AdjacencyList>();
}

// @verif prop=C14 tier=quick fl=f1 feat=map4 role=rejects/adjacency-map t=1200 mem=12 expect=panic
#[cfg_attr(kani, kani::proof)]
#[cfg_attr(kani, kani::unwind(8))]
pub fn c14_rejects_adjacency_map() {
    rejects::<AdjacencyMap>();
}

// @verif prop=C14 tier=thorough fl=f0 role=orders/matrix t=3600 mem=24
#[cfg_attr(kani, kani::proof)]
#[cfg_attr(kani, kani::unwind(15))]
pub fn c14_matrix_orders_6_12() {
    orders_light::<AdjacencyMatrix>(6, 12);
}

// @verif prop=C14 tier=thorough fl=f1 role=orders/edge-list t=3600 mem=16
#[cfg_attr(kani, kani::proof)]
#[cfg_attr(kani, kani::unwind(60))]
pub fn c14_edge_list_orders_6_7() {
    orders_light::<EdgeList>(6, 7);
}

// @verif prop=C14 tier=thorough fl=f2 role=orders/adjacency-list t=3600 mem=16
#[cfg_attr(kani, kani::proof)]
#[cfg_attr(kani, kani::unwind(10))]
pub fn c14_adjacency_list_orders_6_8() {
    orders_light::<AdjacencyList>(6, 8);
}
