//! C17 — results never depend on the number of worker threads.
//!
//! Decided here: the *configuration* quantifier. `available_parallelism()`
//! returns a symbolic p in 1..=P, so the `t = min(order, p)`, `div_ceil`,
//! `start >= end` and merge-path partition arithmetic of the six threaded
//! operations is solved for every p against the single-threaded definition in
//! one query per harness. NOT decided: interleavings (the thread model runs
//! each worker atomically at its spawn point), see DESIGN.md §3 C17.

use {
    crate::{
        cx::EXACT,
        c02_queries,
        c11_ops,
        c12_predicates,
        c14_generators,
        c15_random,
    },
    graaf::{
        AdjacencyList,
        AdjacencyMap,
    },
};

// AdjacencyList::complement on every digraph of order 3 with exactly 1 available CPU(s) equals the single-threaded definition.
// @verif prop=C17 tier=quick fl=f2 role=complement/t1 t=2400 mem=24 par=1
#[cfg_attr(kani, kani::proof)]
#[cfg_attr(kani, kani::unwind(8))]
pub fn c17_complement_n3_t1() {
    c11_ops::complement::<AdjacencyList, 3>(EXACT + 1);
}

// AdjacencyList::complement on every digraph of order 3 with exactly 2 available CPU(s) equals the single-threaded definition.
// @verif prop=C17 tier=quick fl=f2 role=complement/t2 t=2400 mem=24 par=2
#[cfg_attr(kani, kani::proof)]
#[cfg_attr(kani, kani::unwind(8))]
pub fn c17_complement_n3_t2() {
    c11_ops::complement::<AdjacencyList, 3>(EXACT + 2);
}

// AdjacencyList::complement on every digraph of order 3 with exactly 4 available CPU(s) equals the single-threaded definition.
// @verif prop=C17 tier=exp fl=f2 role=complement/t4 t=3600 mem=30 par=4
#[cfg_attr(kani, kani::proof)]
#[cfg_attr(kani, kani::unwind(8))]
pub fn c17_complement_n3_t4() {
    c11_ops::complement::<AdjacencyList, 3>(EXACT + 4);
}

// AdjacencyList::complement on every digraph of order 3 with exactly 3 available CPU(s) equals the single-threaded definition.
// @verif prop=C17 tier=exp fl=f2 role=complement/t3 t=3600 mem=30 par=3
#[cfg_attr(kani, kani::proof)]
#[cfg_attr(kani, kani::unwind(8))]
pub fn c17_complement_n3_t3() {
    c11_ops::complement::<AdjacencyList, 3>(EXACT + 3);
}

// AdjacencyList::complement on every digraph of order 3 with exactly 8 available CPU(s) equals the single-threaded definition.
// @verif prop=C17 tier=exp fl=f2 role=complement/t8 t=3600 mem=30 par=8
#[cfg_attr(kani, kani::proof)]
#[cfg_attr(kani, kani::unwind(10))]
pub fn c17_complement_n3_t8() {
    c11_ops::complement::<AdjacencyList, 3>(EXACT + 8);
}

// AdjacencyList::degree_sequence (and the other queries) on every digraph of order 3 with exactly 2 CPU(s).
// @verif prop=C17 tier=quick fl=f2 role=degree-sequence/t2 t=2400 mem=24 par=2
#[cfg_attr(kani, kani::proof)]
#[cfg_attr(kani, kani::unwind(8))]
pub fn c17_degree_sequence_n3_t2() {
    c02_queries::inherent::<AdjacencyList, 3>(EXACT + 2);
}

// AdjacencyList::degree_sequence (and the other queries) on every digraph of order 3 with exactly 4 CPU(s).
// @verif prop=C17 tier=quick fl=f2 role=degree-sequence/t4 t=2400 mem=24 par=4
#[cfg_attr(kani, kani::proof)]
#[cfg_attr(kani, kani::unwind(8))]
pub fn c17_degree_sequence_n3_t4() {
    c02_queries::inherent::<AdjacencyList, 3>(EXACT + 4);
}

// AdjacencyList::degree_sequence (and the other queries) on every digraph of order 3 with exactly 1 CPU(s).
// @verif prop=C17 tier=thorough fl=f2 role=degree-sequence/t1 t=3600 mem=16 par=1
#[cfg_attr(kani, kani::proof)]
#[cfg_attr(kani, kani::unwind(8))]
pub fn c17_degree_sequence_n3_t1() {
    c02_queries::inherent::<AdjacencyList, 3>(EXACT + 1);
}

// AdjacencyList::degree_sequence (and the other queries) on every digraph of order 3 with exactly 3 CPU(s).
// @verif prop=C17 tier=thorough fl=f2 role=degree-sequence/t3 t=3600 mem=16 par=3
#[cfg_attr(kani, kani::proof)]
#[cfg_attr(kani, kani::unwind(8))]
pub fn c17_degree_sequence_n3_t3() {
    c02_queries::inherent::<AdjacencyList, 3>(EXACT + 3);
}

// AdjacencyList::degree_sequence (and the other queries) on every digraph of order 3 with exactly 8 CPU(s).
// @verif prop=C17 tier=exp fl=f2 role=degree-sequence/t8 t=3600 mem=30 par=8
#[cfg_attr(kani, kani::proof)]
#[cfg_attr(kani, kani::unwind(10))]
pub fn c17_degree_sequence_n3_t8() {
    c02_queries::inherent::<AdjacencyList, 3>(EXACT + 8);
}

// AdjacencyList::is_semicomplete (and the other predicates) on every digraph of order 3 with exactly 2 CPU(s).
// @verif prop=C17 tier=quick fl=f2 role=is-semicomplete/t2 t=2400 mem=24 par=2
#[cfg_attr(kani, kani::proof)]
#[cfg_attr(kani, kani::unwind(8))]
pub fn c17_is_semicomplete_n3_t2() {
    c12_predicates::inherent::<AdjacencyList, 3>(EXACT + 2);
}

// AdjacencyList::is_semicomplete (and the other predicates) on every digraph of order 3 with exactly 4 CPU(s).
// @verif prop=C17 tier=quick fl=f2 role=is-semicomplete/t4 t=2400 mem=24 par=4
#[cfg_attr(kani, kani::proof)]
#[cfg_attr(kani, kani::unwind(8))]
pub fn c17_is_semicomplete_n3_t4() {
    c12_predicates::inherent::<AdjacencyList, 3>(EXACT + 4);
}

// AdjacencyList::is_semicomplete (and the other predicates) on every digraph of order 3 with exactly 1 CPU(s).
// @verif prop=C17 tier=thorough fl=f2 role=is-semicomplete/t1 t=3600 mem=16 par=1
#[cfg_attr(kani, kani::proof)]
#[cfg_attr(kani, kani::unwind(8))]
pub fn c17_is_semicomplete_n3_t1() {
    c12_predicates::inherent::<AdjacencyList, 3>(EXACT + 1);
}

// AdjacencyList::is_semicomplete (and the other predicates) on every digraph of order 3 with exactly 3 CPU(s).
// @verif prop=C17 tier=thorough fl=f2 role=is-semicomplete/t3 t=3600 mem=16 par=3
#[cfg_attr(kani, kani::proof)]
#[cfg_attr(kani, kani::unwind(8))]
pub fn c17_is_semicomplete_n3_t3() {
    c12_predicates::inherent::<AdjacencyList, 3>(EXACT + 3);
}

// AdjacencyList::is_semicomplete (and the other predicates) on every digraph of order 3 with exactly 8 CPU(s).
// @verif prop=C17 tier=exp fl=f2 role=is-semicomplete/t8 t=3600 mem=30 par=8
#[cfg_attr(kani, kani::proof)]
#[cfg_attr(kani, kani::unwind(10))]
pub fn c17_is_semicomplete_n3_t8() {
    c12_predicates::inherent::<AdjacencyList, 3>(EXACT + 8);
}

// AdjacencyList::union of every order-2 with every order-3 digraph with exactly 2 CPU(s).
// @verif prop=C17 tier=exp fl=f2 role=union-list/t2 t=3600 mem=30 par=2
#[cfg_attr(kani, kani::proof)]
#[cfg_attr(kani, kani::unwind(8))]
pub fn c17_union_list_n2_m3_t2() {
    c11_ops::union::<AdjacencyList, 2, 3, 3>(EXACT + 2);
}

// AdjacencyList::union of every order-2 with every order-3 digraph with exactly 4 CPU(s).
// @verif prop=C17 tier=exp fl=f2 role=union-list/t4 t=3600 mem=30 par=4
#[cfg_attr(kani, kani::proof)]
#[cfg_attr(kani, kani::unwind(8))]
pub fn c17_union_list_n2_m3_t4() {
    c11_ops::union::<AdjacencyList, 2, 3, 3>(EXACT + 4);
}

// AdjacencyList::union of every order-2 with every order-3 digraph with exactly 1 CPU(s).
// @verif prop=C17 tier=exp fl=f2 role=union-list/t1 t=3600 mem=30 par=1
#[cfg_attr(kani, kani::proof)]
#[cfg_attr(kani, kani::unwind(8))]
pub fn c17_union_list_n2_m3_t1() {
    c11_ops::union::<AdjacencyList, 2, 3, 3>(EXACT + 1);
}

// AdjacencyList::union of every order-2 with every order-3 digraph with exactly 3 CPU(s).
// @verif prop=C17 tier=exp fl=f2 role=union-list/t3 t=3600 mem=30 par=3
#[cfg_attr(kani, kani::proof)]
#[cfg_attr(kani, kani::unwind(8))]
pub fn c17_union_list_n2_m3_t3() {
    c11_ops::union::<AdjacencyList, 2, 3, 3>(EXACT + 3);
}

// AdjacencyList::union of every order-2 with every order-3 digraph with exactly 8 CPU(s).
// @verif prop=C17 tier=exp fl=f2 role=union-list/t8 t=3600 mem=30 par=8
#[cfg_attr(kani, kani::proof)]
#[cfg_attr(kani, kani::unwind(10))]
pub fn c17_union_list_n2_m3_t8() {
    c11_ops::union::<AdjacencyList, 2, 3, 3>(EXACT + 8);
}

// AdjacencyMap::union (merge-path partition) of two order-2 digraphs with exactly 2 CPU(s).
// @verif prop=C17 tier=exp fl=f2 feat=map4 role=union-map/t2 t=3600 mem=30 par=2
#[cfg_attr(kani, kani::proof)]
#[cfg_attr(kani, kani::unwind(8))]
pub fn c17_union_map_n2_m2_t2() {
    c11_ops::union::<AdjacencyMap, 2, 2, 2>(EXACT + 2);
}

// AdjacencyMap::union (merge-path partition) of two order-2 digraphs with exactly 3 CPU(s).
// @verif prop=C17 tier=exp fl=f2 feat=map4 role=union-map/t3 t=3600 mem=30 par=3
#[cfg_attr(kani, kani::proof)]
#[cfg_attr(kani, kani::unwind(8))]
pub fn c17_union_map_n2_m2_t3() {
    c11_ops::union::<AdjacencyMap, 2, 2, 2>(EXACT + 3);
}

// AdjacencyMap::union (merge-path partition) of two order-2 digraphs with exactly 1 CPU(s).
// @verif prop=C17 tier=exp fl=f2 feat=map4 role=union-map/t1 t=3600 mem=30 par=1
#[cfg_attr(kani, kani::proof)]
#[cfg_attr(kani, kani::unwind(8))]
pub fn c17_union_map_n2_m2_t1() {
    c11_ops::union::<AdjacencyMap, 2, 2, 2>(EXACT + 1);
}

// AdjacencyMap::union (merge-path partition) of two order-2 digraphs with exactly 4 CPU(s).
// @verif prop=C17 tier=exp fl=f2 feat=map4 role=union-map/t4 t=3600 mem=30 par=4
#[cfg_attr(kani, kani::proof)]
#[cfg_attr(kani, kani::unwind(8))]
pub fn c17_union_map_n2_m2_t4() {
    c11_ops::union::<AdjacencyMap, 2, 2, 2>(EXACT + 4);
}

// AdjacencyMap::union (merge-path partition) of two order-2 digraphs with exactly 8 CPU(s).
// @verif prop=C17 tier=exp fl=f2 feat=map4 role=union-map/t8 t=3600 mem=30 par=8
#[cfg_attr(kani, kani::proof)]
#[cfg_attr(kani, kani::unwind(10))]
pub fn c17_union_map_n2_m2_t8() {
    c11_ops::union::<AdjacencyMap, 2, 2, 2>(EXACT + 8);
}

// AdjacencyList::complete(5) with exactly 1 CPU(s): chunk sizes [5].
// @verif prop=C17 tier=exp fl=f2 role=complete/t1 t=3600 mem=30 par=1
#[cfg_attr(kani, kani::proof)]
#[cfg_attr(kani, kani::unwind(8))]
pub fn c17_complete_n5_t1() {
    c14_generators::complete_threads(5, EXACT + 1);
}

// AdjacencyList::complete(5) with exactly 2 CPU(s): chunk sizes [3].
// @verif prop=C17 tier=quick fl=f2 role=complete/t2 t=2400 mem=24 par=2
#[cfg_attr(kani, kani::proof)]
#[cfg_attr(kani, kani::unwind(8))]
pub fn c17_complete_n5_t2() {
    c14_generators::complete_threads(5, EXACT + 2);
}

// AdjacencyList::complete(5) with exactly 4 CPU(s): chunk sizes [2].
// @verif prop=C17 tier=exp fl=f2 role=complete/t4 t=3600 mem=30 par=4
#[cfg_attr(kani, kani::proof)]
#[cfg_attr(kani, kani::unwind(8))]
pub fn c17_complete_n5_t4() {
    c14_generators::complete_threads(5, EXACT + 4);
}

// AdjacencyList::complete(5) with exactly 5 CPU(s): chunk sizes [1].
// @verif prop=C17 tier=exp fl=f2 role=complete/t5 t=3600 mem=30 par=5
#[cfg_attr(kani, kani::proof)]
#[cfg_attr(kani, kani::unwind(8))]
pub fn c17_complete_n5_t5() {
    c14_generators::complete_threads(5, EXACT + 5);
}

// AdjacencyList::complete(5) with exactly 8 CPU(s): chunk sizes [1].
// @verif prop=C17 tier=exp fl=f2 role=complete/t8 t=3600 mem=30 par=8
#[cfg_attr(kani, kani::proof)]
#[cfg_attr(kani, kani::unwind(8))]
pub fn c17_complete_n5_t8() {
    c14_generators::complete_threads(5, EXACT + 8);
}

// AdjacencyList::complete(5) with exactly 3 CPU(s): chunk sizes [2].
// @verif prop=C17 tier=exp fl=f2 role=complete/t3 t=3600 mem=30 par=3
#[cfg_attr(kani, kani::proof)]
#[cfg_attr(kani, kani::unwind(8))]
pub fn c17_complete_n5_t3() {
    c14_generators::complete_threads(5, EXACT + 3);
}

// AdjacencyList::complete(5) with exactly 6 CPU(s): chunk sizes [1].
// @verif prop=C17 tier=exp fl=f2 role=complete/t6 t=3600 mem=30 par=6
#[cfg_attr(kani, kani::proof)]
#[cfg_attr(kani, kani::unwind(8))]
pub fn c17_complete_n5_t6() {
    c14_generators::complete_threads(5, EXACT + 6);
}

// AdjacencyList::complete(5) with exactly 16 CPU(s): chunk sizes [1].
// @verif prop=C17 tier=exp fl=f2 role=complete/t16 t=3600 mem=30 par=16
#[cfg_attr(kani, kani::proof)]
#[cfg_attr(kani, kani::unwind(8))]
pub fn c17_complete_n5_t16() {
    c14_generators::complete_threads(5, EXACT + 16);
}

// AdjacencyList::complete(5) with the CPU count symbolic in 1..=8.
// @verif prop=C17 tier=exp fl=f2 role=complete/p8 t=3600 mem=30
#[cfg_attr(kani, kani::proof)]
#[cfg_attr(kani, kani::unwind(10))]
pub fn c17_complete_n5_p8() {
    c14_generators::complete_threads(5, 8);
}

// AdjacencyList::complement on every digraph of order 2 with the CPU count symbolic in 1..=4 (chunk arithmetic for all counts in one query).
// @verif prop=C17 tier=exp fl=f2 role=complement/symbolic-p t=3600 mem=30
#[cfg_attr(kani, kani::proof)]
#[cfg_attr(kani, kani::unwind(8))]
pub fn c17_complement_n2_p4() {
    c11_ops::complement::<AdjacencyList, 2>(4);
}

// AdjacencyMap::random_tournament(3, every seed) stays a tournament with exactly 2 CPU(s).
// @verif prop=C17 tier=quick fl=f2 feat=map4 role=map-tournament/t2 t=2400 mem=24 par=2
#[cfg_attr(kani, kani::proof)]
#[cfg_attr(kani, kani::unwind(10))]
pub fn c17_map_tournament_n3_t2() {
    c15_random::tournament::<AdjacencyMap, 3>(EXACT + 2);
}

// AdjacencyMap::erdos_renyi(3, every p, every seed) stays a simple digraph with exactly 2 CPU(s).
// @verif prop=C17 tier=thorough fl=f2 feat=map4 role=map-erdos-renyi/t2 t=3600 mem=16 par=2
#[cfg_attr(kani, kani::proof)]
#[cfg_attr(kani, kani::unwind(10))]
pub fn c17_map_erdos_renyi_n3_t2() {
    c15_random::erdos_renyi::<AdjacencyMap, 3>(EXACT + 2);
}

// AdjacencyMap::random_tournament(3, every seed) stays a tournament with exactly 4 CPU(s).
// @verif prop=C17 tier=thorough fl=f2 feat=map4 role=map-tournament/t4 t=3600 mem=16 par=4
#[cfg_attr(kani, kani::proof)]
#[cfg_attr(kani, kani::unwind(10))]
pub fn c17_map_tournament_n3_t4() {
    c15_random::tournament::<AdjacencyMap, 3>(EXACT + 4);
}

// AdjacencyMap::erdos_renyi(3, every p, every seed) stays a simple digraph with exactly 4 CPU(s).
// @verif prop=C17 tier=exp fl=f2 feat=map4 role=map-erdos-renyi/t4 t=3600 mem=30 par=4
#[cfg_attr(kani, kani::proof)]
#[cfg_attr(kani, kani::unwind(10))]
pub fn c17_map_erdos_renyi_n3_t4() {
    c15_random::erdos_renyi::<AdjacencyMap, 3>(EXACT + 4);
}

// The seeded AdjacencyMap generators repeat exactly within one configuration (2 CPUs).
// @verif prop=C17 tier=exp fl=f2 feat=map4 role=map-deterministic/t2 t=3600 mem=30 par=2
#[cfg_attr(kani, kani::proof)]
#[cfg_attr(kani, kani::unwind(10))]
pub fn c17_map_deterministic_n3_t2() {
    c15_random::deterministic::<AdjacencyMap, 3>(EXACT + 2);
}
