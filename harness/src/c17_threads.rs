//! C17 — results never depend on the number of worker threads.
//!
//! Decided here: the *configuration* quantifier. `available_parallelism()`
//! returns a symbolic p in 1..=P, so the `t = min(order, p)`, `div_ceil`,
//! `start >= end` and merge-path partition arithmetic of the six threaded
//! operations is solved for every p against the single-threaded definition in
//! one query per harness. NOT decided: interleavings (the thread model runs
//! each worker atomically at its spawn point), see DESIGN.md §3 C17.

use {
    crate::{
        c02_queries,
        c11_ops,
        c12_predicates,
        c14_generators,
        c15_random,
    },
    graaf::{
        AdjacencyList,
        AdjacencyMap,
    },
};

// AdjacencyList::degree_sequence (and the other inherent queries), order 3, p in 1..=8.
// @verif prop=C17 tier=quick fl=f2 role=degree-sequence/p8 t=1800 mem=16
#[cfg_attr(kani, kani::proof)]
#[cfg_attr(kani, kani::unwind(10))]
pub fn c17_degree_sequence_n3_p8() {
    c02_queries::inherent::<AdjacencyList, 3>(8);
}

// AdjacencyList::complement, order 3, p in 1..=8 (rows below, equal to and above the thread count).
// @verif prop=C17 tier=quick fl=f2 role=complement/p8 t=1800 mem=16
#[cfg_attr(kani, kani::proof)]
#[cfg_attr(kani, kani::unwind(10))]
pub fn c17_complement_n3_p8() {
    c11_ops::complement::<AdjacencyList, 3>(8);
}

// AdjacencyList::union, orders 2 and 3, p in 1..=8.
// @verif prop=C17 tier=quick fl=f2 role=union-list/p8 t=1800 mem=16
#[cfg_attr(kani, kani::proof)]
#[cfg_attr(kani, kani::unwind(10))]
pub fn c17_union_list_n2_m3_p8() {
    c11_ops::union::<AdjacencyList, 2, 3, 3>(8);
}

// AdjacencyMap::union (merge-path partition), orders 2 and 2, p in 1..=8.
// @verif prop=C17 tier=quick fl=f2 role=union-map/p8 t=2400 mem=20
#[cfg_attr(kani, kani::proof)]
#[cfg_attr(kani, kani::unwind(10))]
pub fn c17_union_map_n2_m2_p8() {
    c11_ops::union::<AdjacencyMap, 2, 2, 2>(8);
}

// AdjacencyList::is_semicomplete (and the other predicates), order 3, p in 1..=8.
// @verif prop=C17 tier=quick fl=f2 role=is-semicomplete/p8 t=1800 mem=16
#[cfg_attr(kani, kani::proof)]
#[cfg_attr(kani, kani::unwind(10))]
pub fn c17_is_semicomplete_n3_p8() {
    c12_predicates::inherent::<AdjacencyList, 3>(8);
}

// AdjacencyList::complete(6), p in 1..=8: chunk sizes 6, 3, 2, 2, 2, 1, 1, 1.
// @verif prop=C17 tier=quick fl=f2 role=complete/p8 t=1800 mem=16
#[cfg_attr(kani, kani::proof)]
#[cfg_attr(kani, kani::unwind(10))]
pub fn c17_complete_n6_p8() {
    c14_generators::complete_threads(6, 8);
}

// AdjacencyMap::random_tournament stays a tournament for every p in 1..=8 and every seed.
// @verif prop=C17 tier=quick fl=f2 role=map-tournament/p8 t=2400 mem=20
#[cfg_attr(kani, kani::proof)]
#[cfg_attr(kani, kani::unwind(10))]
pub fn c17_map_tournament_n3_p8() {
    c15_random::tournament::<AdjacencyMap, 3>(8);
}

// AdjacencyMap::erdos_renyi stays a simple digraph for every p in 1..=8.
// @verif prop=C17 tier=thorough fl=f2 role=map-erdos-renyi/p8 t=3600 mem=24
#[cfg_attr(kani, kani::proof)]
#[cfg_attr(kani, kani::unwind(10))]
pub fn c17_map_erdos_renyi_n3_p8() {
    c15_random::erdos_renyi::<AdjacencyMap, 3>(8);
}

// The seeded AdjacencyMap generators repeat exactly within one configuration.
// @verif prop=C17 tier=thorough fl=f2 role=map-deterministic/p8 t=3600 mem=24
#[cfg_attr(kani, kani::proof)]
#[cfg_attr(kani, kani::unwind(10))]
pub fn c17_map_deterministic_n3_p8() {
    c15_random::deterministic::<AdjacencyMap, 3>(8);
}

// AdjacencyList::complement, order 4, p in 1..=16.
// @verif prop=C17 tier=thorough fl=f2 role=complement/p16 t=3600 mem=24
#[cfg_attr(kani, kani::proof)]
#[cfg_attr(kani, kani::unwind(18))]
pub fn c17_complement_n4_p16() {
    c11_ops::complement::<AdjacencyList, 4>(16);
}
