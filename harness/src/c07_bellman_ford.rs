//! C07 — Bellman-Ford-Moore: exact distances, or None on a reachable
//! negative circuit.

use {
    crate::{
        cx,
        nd,
        oracle::{
            AL,
            IINF,
            WG,
        },
    },
    graaf::{
        AddArcWeighted,
        AdjacencyListWeighted,
        BellmanFordMoore,
        Empty,
    },
};

#[cfg(not(kani))]
use crate::kani;

/// Every simple digraph on N vertices with m <= M arcs (every residue of m
/// modulo 4 when M >= 3: the relaxation loop is unrolled four times) and
/// weights in lo..=hi.
fn any_arcs<const N: usize, const M: usize>(lo: isize, hi: isize) -> AL<M, isize> {
    let m = nd::below(M + 1);
    let mut arcs = [(0_usize, 0_usize, 0_isize); M];

    for i in 0..M {
        arcs[i] = (nd::below(N), nd::below(N), nd::irange(lo, hi));
    }

    let g = AL { n: N, m, arcs };

    kani::assume(g.is_simple());

    g
}

fn check<const N: usize, const M: usize>(g: &AL<M, isize>, s: usize, got: Option<&[isize]>) {
    let dense = g.dense::<N>();
    let (want, neg_reachable) = dense.bf(s);
    let (_, neg_anywhere) = dense.apsp();

    match got {
        None => {
            assert!(neg_anywhere, "Some whenever the digraph has no negative circuit");
        }
        Some(d) => {
            assert!(!neg_reachable, "None whenever a negative circuit is reachable from s");
            assert!(d.len() == N, "one entry per vertex");

            for v in 0..N {
                assert!(d[v] == want[v], "d[v] = min walk weight, MAX iff unreachable");
            }
        }
    }

    kani::cover!(got.is_none(), "a reachable negative circuit");
    kani::cover!(got.is_some() && neg_anywhere, "a negative circuit that is not reachable from s");
    kani::cover!(got.is_some() && g.m == M && want[N - 1] < 0, "all arcs live and a negative distance");
}

pub fn sparse<const N: usize, const M: usize>(lo: isize, hi: isize) {
    cx::set_vcap(M.max(N));

    let g = any_arcs::<N, M>(lo, hi);
    let s = nd::below(N);
    let mut bfm = BellmanFordMoore::new(&g, s);
    let got = bfm.distances();

    check::<N, M>(&g, s, got);
    core::mem::forget(bfm);
}

fn repr<const N: usize, const M: usize>(lo: isize, hi: isize) {
    cx::set_vcap(M.max(N));

    let g = any_arcs::<N, M>(lo, hi);
    let s = nd::below(N);
    let mut d = AdjacencyListWeighted::<isize>::empty(N);

    for i in 0..M {
        if i < g.m {
            let (u, v, w) = g.arcs[i];

            d.add_arc_weighted(u, v, w);
        }
    }

    let mut bfm = BellmanFordMoore::new(&d, s);
    let got = bfm.distances();

    check::<N, M>(&g, s, got);
    core::mem::forget(bfm);
    core::mem::forget(d);
}

// Digraphs on 3 vertices with 0..=3 arcs (residues 0..3 of the 4x-unrolled loop), weights -2..=2, every source.
// @verif prop=C07 tier=quick fl=f2 role=sparse/small-weights t=1500 mem=14
#[cfg_attr(kani, kani::proof)]
#[cfg_attr(kani, kani::unwind(6))]
pub fn c07_sparse_n3_m3_w2() {
    sparse::<3, 3>(-2, 2);
}

// 0..=4 arcs (one full unrolled block), weights -2..=2.
// @verif prop=C07 tier=quick fl=f2 role=sparse/small-weights t=2400 mem=16
#[cfg_attr(kani, kani::proof)]
#[cfg_attr(kani, kani::unwind(6))]
pub fn c07_sparse_n3_m4_w2() {
    sparse::<3, 4>(-2, 2);
}

// Digraphs on 3 vertices with 0..=5 arcs (every residue mod 4 of the 4x-unrolled loop), weights -8..=8, every source.
// @verif prop=C07 tier=exp fl=f2 role=sparse/small-weights t=3600 mem=24
#[cfg_attr(kani, kani::proof)]
#[cfg_attr(kani, kani::unwind(7))]
pub fn c07_sparse_n3_m5() {
    sparse::<3, 5>(-8, 8);
}

// All digraphs on 3 vertices (0..=6 arcs), weights -8..=8, every source.
// @verif prop=C07 tier=exp fl=f2 role=sparse/small-weights t=3600 mem=24
#[cfg_attr(kani, kani::proof)]
#[cfg_attr(kani, kani::unwind(8))]
pub fn c07_sparse_n3_m6() {
    sparse::<3, 6>(-8, 8);
}

// Large non-negative weights (0..2^61): path sums fit in isize, distances beyond isize::MAX / 4 occur.
// @verif prop=C07 tier=exp fl=f2 role=sparse/large-weights t=3600 mem=24
#[cfg_attr(kani, kani::proof)]
#[cfg_attr(kani, kani::unwind(6))]
pub fn c07_sparse_large_n3_m4() {
    sparse::<3, 4>(0, 1 << 61);
}

// Through AdjacencyListWeighted<isize> (map model), <= 2 arcs on 3 vertices, weights -2..=2.
// @verif prop=C07 tier=quick fl=f2 feat=map4 role=repr/small-weights t=1500 mem=20
#[cfg_attr(kani, kani::proof)]
#[cfg_attr(kani, kani::unwind(8))]
pub fn c07_repr_n3_m2_w2() {
    repr::<3, 2>(-2, 2);
}

// Through AdjacencyListWeighted<isize> (map model), <= 4 arcs on 3 vertices.
// @verif prop=C07 tier=exp fl=f2 feat=map4 role=repr/small-weights t=3600 mem=30
#[cfg_attr(kani, kani::proof)]
#[cfg_attr(kani, kani::unwind(10))]
pub fn c07_repr_n3_m4() {
    repr::<3, 4>(-8, 8);
}

// @verif prop=C07 tier=exp fl=f2 role=sparse/small-weights t=3600 mem=24
#[cfg_attr(kani, kani::proof)]
#[cfg_attr(kani, kani::unwind(10))]
pub fn c07_sparse_n4_m8() {
    sparse::<4, 8>(-8, 8);
}
