#!/usr/bin/env python3
"""Developer helper: type-check the harness crate natively in each flavour."""
import os, subprocess, sys
sys.path.insert(0, os.path.dirname(os.path.abspath(__file__)))
import run
fls = sys.argv[1:] or ["f0", "f1", "f2"]
allh = run.parse_harnesses()
rc = 0
for fl in fls:
    d, _ = run.prepare_flavour("/var/tmp/gv-dev", fl, allh)
    p = subprocess.run(["cargo", "check", "--features", fl, "--message-format", "short"], cwd=os.path.join(d, "hx"), env=run.ENV,
                       stdout=subprocess.PIPE, stderr=subprocess.STDOUT, text=True)
    errs = [l for l in p.stdout.splitlines() if "error" in l]
    print(fl, "rc", p.returncode)
    print("\n".join(errs[:40]))
    rc |= p.returncode
sys.exit(rc)
