#!/usr/bin/env python3
"""Regenerate the encodable copies of graaf from /repo's *current* working tree.

flavour f0: /repo/src copied verbatim (real std).
flavour f1: path root `std::` -> `vstd::` on code lines (collections, threads,
            Mutex/Once are then the bounded models of /verif/vstd; Vec is real).
flavour f2: f1 + `use vstd::shim_prelude::{vec, Vec};` after each file header
            (Vec and vec! are then the bounded model).
option  widen: the private fields of the traversal structs become `pub`
            (one-step harnesses construct arbitrary states).

Nothing else is rewritten: no function body, condition, loop, index
expression or `unsafe` block. Every rewritten line is logged; a rewritten line
that is not a `use` tree line / injected header / field declaration aborts
the run as inconclusive (exit 2).
"""
import json
import os
import re
import shutil
import sys

REPO = os.environ.get("VERIF_REPO", "/repo")
VSTD = os.path.join(os.path.dirname(os.path.abspath(__file__)), "vstd")

STD_RE = re.compile(r"(?<![A-Za-z0-9_:])std::")
SHIM = "#[allow(unused_imports)] use vstd::shim_prelude::{vec, Vec};\n"

WIDEN_FILES = {
    "algo/bfs.rs", "algo/bfs_dist.rs", "algo/bfs_pred.rs",
    "algo/dfs.rs", "algo/dfs_dist.rs", "algo/dfs_pred.rs",
    "algo/dijkstra.rs", "algo/dijkstra_dist.rs", "algo/dijkstra_pred.rs",
    "gen/prng/xoshiro256_star_star.rs",
}
WIDEN_RE = re.compile(r"^(\s+)(digraph|queue|stack|heap|visited|dist|state): ")


def use_lines(lines):
    """Set of line indices that lie inside a `use …;` item."""
    inside = set()
    in_use = False
    for i, line in enumerate(lines):
        s = line.strip()
        if not in_use and re.match(r"^(pub(\([a-z]+\))? )?use[ {]", s):
            in_use = True
        if in_use:
            inside.add(i)
            if s.endswith(";"):
                in_use = False
    return inside


def transform_file(rel, text, flavour, widen):
    changes = []
    lines = text.splitlines(keepends=True)
    out = []
    in_struct = False
    in_use = use_lines(lines)
    for i, line in enumerate(lines):
        stripped = line.lstrip()
        new = line
        if not stripped.startswith("//") and flavour in ("f1", "f2"):
            if STD_RE.search(line):
                new = STD_RE.sub("vstd::", line)
                if i not in in_use:
                    raise SystemExit(
                        f"XFORM-INCONCLUSIVE: {rel}:{i+1}: `std::` outside a use item: {line.strip()}")
        if widen and rel in WIDEN_FILES:
            if re.match(r"^pub struct \w+(<'a, D>)? \{", line):
                in_struct = True
            elif in_struct and line.startswith("}"):
                in_struct = False
            elif in_struct:
                m = WIDEN_RE.match(new)
                if m:
                    new = WIDEN_RE.sub(r"\1pub \2: ", new)
        if new != line:
            changes.append({"file": rel, "line": i + 1,
                            "old": line.rstrip("\n"), "new": new.rstrip("\n")})
        out.append(new)
    if flavour == "f2":
        # after the leading block of `//!` docs, blank lines and `#![…]` attrs
        k = 0
        while k < len(out) and (out[k].startswith("//!") or out[k].strip() == ""
                                or out[k].startswith("#![")):
            k += 1
        out.insert(k, SHIM)
        changes.append({"file": rel, "line": k + 1, "old": None, "new": SHIM.strip()})
    return "".join(out), changes


CARGO = """[package]
name = "graaf"
version = "0.0.0-verif"
edition = "2021"

[lib]
path = "src/lib.rs"

[dependencies]
{deps}

[lints.rust]
unexpected_cfgs = {{ level = "allow", check-cfg = ['cfg(kani)'] }}
"""


def generate(flavour, dest, widen=False, feats=()):
    """Write <dest>/graaf (transformed crate). Returns the change log."""
    src = os.path.join(REPO, "src")
    gdir = os.path.join(dest, "graaf")
    if os.path.exists(gdir):
        shutil.rmtree(gdir)
    os.makedirs(os.path.join(gdir, "src"))
    log = []
    nfiles = 0
    for root, _dirs, files in os.walk(src):
        for f in sorted(files):
            p = os.path.join(root, f)
            rel = os.path.relpath(p, src)
            q = os.path.join(gdir, "src", rel)
            os.makedirs(os.path.dirname(q), exist_ok=True)
            if not f.endswith(".rs"):
                shutil.copy(p, q)
                continue
            text = open(p, encoding="utf-8").read()
            new, ch = transform_file(rel, text, flavour, widen)
            log.extend(ch)
            nfiles += 1
            with open(q, "w", encoding="utf-8") as fh:
                fh.write(new)
    extra_feats = list(feats)
    feats = []
    if flavour == "f2":
        feats.append("vecmodel")
    feats = feats + [f for f in extra_feats if f]
    if flavour == "f0":
        deps = ""
    else:
        deps = 'vstd = {{ path = "{}", features = {} }}'.format(VSTD, json.dumps(feats))
    with open(os.path.join(gdir, "Cargo.toml"), "w") as fh:
        fh.write(CARGO.format(deps=deps))
    return {"flavour": flavour, "files": nfiles, "widen": widen,
            "rewritten_lines": len(log), "changes": log}


if __name__ == "__main__":
    fl = sys.argv[1]
    dest = sys.argv[2]
    widen = "--widen" in sys.argv
    res = generate(fl, dest, widen=widen, feats=["map4"] if "--map4" in sys.argv else [])
    kinds = {}
    for c in res["changes"]:
        kinds[c["new"].strip()[:40]] = kinds.get(c["new"].strip()[:40], 0) + 1
    print(json.dumps({k: res[k] for k in ("flavour", "files", "rewritten_lines", "widen")}))
