#!/usr/bin/env python3
"""Developer helper: run many harnesses concurrently and print a table.
usage: devbatch.py [--t SEC] [--tier quick] <name-substring>..."""
import concurrent.futures as cf, os, sys, threading, time
sys.path.insert(0, os.path.dirname(os.path.abspath(__file__)))
import run
args = sys.argv[1:]
tcap = None
if "--t" in args:
    i = args.index("--t"); tcap = int(args[i + 1]); del args[i:i + 2]
tier = None
if "--tier" in args:
    i = args.index("--tier"); tier = args[i + 1]; del args[i:i + 2]
allh = run.parse_harnesses()
sel = [h for h in allh if any(a in h["name"] for a in args) and (tier is None or h["tier"] == tier)]
base = "/var/tmp/gv-batch-%d" % os.getpid()
os.makedirs(base + "/logs", exist_ok=True)
dirs = {}
for fl in sorted({run.flkey(h) for h in sel}):
    dirs[fl], _ = run.prepare_flavour(base, fl, allh)
cond = threading.Condition(); budget = [int(os.environ.get("VERIF_MEM_GB", "44"))]; slots = list(range(10))
def work(h):
    h = dict(h)
    if tcap: h["t"] = min(h["t"], tcap)
    need = max(4, h["mem"] // 2)
    with cond:
        while budget[0] < need or not slots: cond.wait()
        budget[0] -= need; slot = slots.pop()
    try:
        return run.run_kani(h, dirs[run.flkey(h)], slot, base + "/logs")
    finally:
        with cond:
            slots.append(slot); budget[0] += need; cond.notify_all()
sel.sort(key=lambda h: (h["t"], h["mem"])) if os.environ.get("BATCH_ASC") else sel.sort(key=lambda h: -h["t"])
with cf.ThreadPoolExecutor(max_workers=10) as ex:
    for fut in cf.as_completed([ex.submit(work, h) for h in sel]):
        r = fut.result()
        import json as _j
        with open(os.environ.get("BATCH_JSON", "/tmp/batch.jsonl"), "a") as _fh:
            _fh.write(_j.dumps({k: r.get(k) for k in ("harness", "verdict", "wall_s", "sat_variables", "solver_s", "reason", "flavour")}
                               | {"failed": sorted({c["desc"] for c in r["failed_checks"]})}) + "\n")
        print("%-42s %-12s %7.1fs vars=%s solver=%ss %s %s" % (r["harness"], r["verdict"], r["wall_s"], r.get("sat_variables"),
              r.get("solver_s"), sorted({c["desc"] for c in r["failed_checks"]})[:3], (r.get("reason") or "")[:110]), flush=True)
print("logs in", base)
