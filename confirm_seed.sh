#!/bin/bash
# usage: confirm_seed.sh <worktree> <property> <seed-name>
# Confirms a seeded change independently: builds, runs the pinned baseline suite with the
# change (must pass), runs the demonstration with (must fail) and without (must pass) it,
# and stores patch + demo + meta.json under /verif/seeded/<seed-name>/.
set -u
WT=$1; PROP=$2; NAME=$3
OUT=/verif/seeded/$NAME
mkdir -p $OUT
cd $WT || exit 9
export CARGO_NET_OFFLINE=true
git diff -- src > $OUT/patch.diff
DEMO=$(ls tests/demo_*.rs | head -1)
cp $DEMO $OUT/
[ -f NOTES.md ] && cp NOTES.md $OUT/NOTES.md
T=$(basename $DEMO .rs)
cargo build --offline >/dev/null 2>&1; B=$?
cargo nextest run --workspace --no-fail-fast --tool-config-file pb:/w/lib/nextest.toml --profile pb --test-threads 8 --offline --lib > $OUT/suite.log 2>&1
SUITE=$(grep -E "^\s+Summary" $OUT/suite.log | tail -1)
cargo test --offline --doc > $OUT/doc.log 2>&1; DOC=$(grep "test result" $OUT/doc.log | tail -1)
cargo test --offline --test $T > $OUT/demo_with.log 2>&1; WITH=$?
git stash push -q -- src
cargo test --offline --test $T > $OUT/demo_without.log 2>&1; WITHOUT=$?
git stash pop -q
python3 - "$OUT" "$PROP" "$NAME" "$B" "$SUITE" "$DOC" "$WITH" "$WITHOUT" "$T" <<'PY'
import json,sys,os
out,prop,name,b,suite,doc,w,wo,t=sys.argv[1:]
meta={"seed":name,"property":prop,"base_commit":os.popen("git -C /repo rev-parse --short HEAD").read().strip(),
 "confirmed":{"build_rc":int(b),"baseline_suite_with_change":suite.strip(),"doctests_with_change":doc.strip(),
              "demo":t,"demo_with_change_rc":int(w),"demo_without_change_rc":int(wo)},
 "ok": int(b)==0 and "passed" in suite and "failed" not in suite and "test result: ok" in doc and int(w)!=0 and int(wo)==0,
 "needs_to_manifest":"see NOTES.md","ran":["cargo build --offline","cargo nextest run ... --lib (pinned baseline config)","cargo test --offline --doc","cargo test --offline --test "+t+" (with and without the change)"]}
json.dump(meta,open(os.path.join(out,"meta.json"),"w"),indent=1)
print(name, "OK" if meta["ok"] else "NOT-CONFIRMED", suite.strip(), "| demo with:",w,"without:",wo)
PY
rm -f $OUT/suite.log $OUT/doc.log
