#!/usr/bin/env python3
"""Writes MANIFEST.json from the table below (kept in one place so that the
claimed level, the notes and the not_applicable list stay in step)."""
import json
import os

HERE = os.path.dirname(os.path.abspath(__file__))

TECH = "bounded model checking (Kani 0.68 / CBMC 6.11 + cadical) of graaf's own function bodies over symbolic inputs"

# property -> (level text, level note, design ref)
CLAIMED = {
    "C01": ("Per representation: an arbitrary start digraph (loaded through add_arc; 3 vertices; AdjacencyMap: empty(1) quick, "
            "2 vertices thorough) followed by 1-3 symbolic mutations (add / remove / matrix toggle / weighted re-add, AdjacencyMap vertex growth) with "
            "in-range, just-out-of-range and usize::MAX ids; order, size, vertices(), has_arc for all pairs, arcs()/arcs_weighted() "
            "order, weights and every remove_arc return value are compared with a bit-matrix model in one SAT query per "
            "representation; every rejected call (self-loop, endpoint outside a fixed-order digraph) panics on every path. Since "
            "the start digraph is arbitrary, one further operation already covers histories of any length for that order. "
            "Thorough: 4 vertices with 3-4 operations (list, edge list, matrix).",
            "Bounds N<=3 (4), K<=3 (4), map keys < 4; set/map models (f1), real Vec; in the quick tier the weighted list is compared "
            "through arc_weight / has_arc / size (the arcs_weighted() iteration form is thorough); 'state unchanged after a caught "
            "panic' is not decided (no unwinding under Kani).", "DESIGN.md §3 C01"),
    "C02": ("The 14 blanket/default query implementations over all 4096 digraphs on 4 vertices (array digraph, real std; 5 "
            "thorough), and per representation every inherent query over all digraphs on 3 vertices incl. the total queries with "
            "out-of-range / far-out ids, walks of length 0..3, the sequences of an AdjacencyMap on vertex sets within {0,2,3}, the "
            "threaded degree_sequence with 2 threads; the digraph is unchanged afterwards.",
            "N<=4 (array) / 3 (representations); models f1/f2; the symbolic thread count and the full AdjacencyMap {0,2,3} query "
            "set are experiments (exp tier) that do not finish here.", "DESIGN.md §3 C02"),
    "C03": ("Inductive argument checked by the solver: DijkstraDist::new establishes an invariant over (dist, heap, settled set) and "
            "one next() from ANY state satisfying it yields an unsettled vertex with its exact distance in non-decreasing order and "
            "re-establishes the invariant; at None exactly the reachable vertices were yielded and every distance is final. This "
            "covers runs of any length on every weighted digraph with 3 vertices (weights < 256 quick, < 2^62 thorough), for "
            "DijkstraDist and Dijkstra.",
            "N=3, pre-states with <= 3 heap entries; heap/Vec models; oracle distances by relaxation; whole-run harnesses "
            "(distances() wrapper included) run out of memory and are kept as experiments only.", "DESIGN.md §1.3, §3 C03"),
    "C04": ("Bfs, BfsDist and BfsDist::distances over every digraph on 4 vertices and every source set (16 symbolic bits; 5 vertices "
            "thorough): each reachable vertex once, no other, non-decreasing and exact hop distances, MAX exactly at unreachable "
            "vertices.",
            "Generic code over an array digraph implementing graaf's public traits; thorough also BfsDist through the real "
            "AdjacencyList / AdjacencyMap / AdjacencyMatrix / EdgeList at order 3; deque/Vec models.",
            "DESIGN.md §3 C04"),
    "C05": ("BfsPred::predecessors over all digraphs on 4 vertices x all source sets and shortest_path over all digraphs on 3 "
            "vertices x all source sets x all target predicates: tree condition against oracle hop distances, None iff no reachable "
            "target, minimal-length walk from a source to a target. DijkstraPred: inductive base + step with the predecessor clause "
            "(every yield's predecessor is settled and explains the distance; covers runs of any length, 3 vertices, weights < 256; "
            "pre-states with <= 2 heap entries quick, <= 3 thorough).",
            "cycles() and the whole-run Dijkstra wrappers (predecessors(), shortest_path()) are experiments that run out of memory; "
            "N<=4 (BFS), N=3 / <=3 heap entries (Dijkstra).", "DESIGN.md §3 C05"),
    "C06": ("Dfs, DfsDist, DfsPred over every digraph on 3 vertices x every source set (4 vertices thorough): each vertex at most "
            "once, only reachable ones, depth-first preorder / predecessor / depth against a harness-side search path. The known "
            "truncation defect is isolated by its own assertion (KNOWN-FINDING); all other assertions stay armed.",
            "Runs in which the known defect manifests are cut at that point; widened fields stack/visited; array digraph "
            "(thorough also the real AdjacencyList).",
            "DESIGN.md §3 C06, §5"),
    "C07": ("BellmanFordMoore over every digraph on 3 vertices with <= 3 and <= 4 arcs (arc counts 0..4: every residue of the "
            "4x-unrolled loop), weights -2..2, every source: None iff a negative circuit is reachable, else exact distances; also "
            "through AdjacencyListWeighted<isize> (<= 2 arcs).",
            "N=3, M<=4, |w|<=2; larger weight ranges / 5-6 arcs / weights up to 2^61 do not finish within an hour (exp).",
            "DESIGN.md §3 C07"),
    "C08": ("FloydWarshall over every arc-weighted digraph without negative circuit on 2 vertices (weights -4..8) and 3 vertices "
            "(weights -1..2; -4..8 thorough): every pair against the min-plus closure and against Bellman-Ford per row, 0 diagonal, "
            "MAX iff unreachable; DistanceMatrix::new and indexing inside the encoding; AdjacencyListWeighted<isize> at order 2.",
            "N<=3, small weights.", "DESIGN.md §3 C08"),
    "C11": ("complement and converse per representation over all digraphs on 3 vertices (AdjacencyMap: 2 quick, 3 thorough), "
            "union of digraphs of different order for AdjacencyMatrix and EdgeList, filter_vertices (AdjacencyMap): vertex set, "
            "every pair, arcs(), operands unchanged, involution / commutativity; AdjacencyList::complement with 2 threads; "
            "AdjacencyMap complement/converse on the vertex set {0,2,3}; weighted converse carries weights.",
            "AdjacencyList::union and AdjacencyMap::union are NOT covered (exp: CBMC artifact / timeouts, DESIGN.md §4); thread count "
            "fixed at 2.", "DESIGN.md §3 C11"),
    "C12": ("Every structural predicate against its definition over all digraphs on 3 (matrix: 4) vertices per representation, "
            "AdjacencyMap also on {0,2,3}; is_subdigraph / is_superdigraph / is_spanning_subdigraph over all pairs of digraphs with "
            "arbitrary (unequal, non-contiguous) vertex sets within 0..3 (blanket code over array digraphs).",
            "N<=4; is_semicomplete threaded with 2 threads; the relations over real AdjacencyMap values are an experiment.",
            "DESIGN.md §3 C12"),
    "C13": ("Memory-safety facets: nine traversal constructors + next() with an unconstrained source id, PredecessorTree with "
            "unconstrained entries, AdjacencyMatrix::empty for an unconstrained order (release replay), DistanceMatrix::new, "
            "BellmanFordMoore::new, AdjacencyList::from(rows) followed by pointer-indexed operations, AdjacencyMap {0,2,3} "
            "converse/is_semicomplete/is_tournament: every execution ends in a return or a panic, no failed pointer check "
            "(CBMC memory-safety checks on; real Vec or exact-size model vectors). Failures are replayed natively and under Miri.",
            "Leak-freedom is NOT decided (DESIGN.md §4); 3-vertex digraphs.", "DESIGN.md §3 C13"),
    "C14": ("Every generator of every representation at orders 1..5 (matrix also 8 and 9: on and across the 64-bit block "
            "boundary; 6..12 thorough), bicliques, trivial/claw/utility, AdjacencyList::complete with 2 threads, against closed-form "
            "definitions; every inadmissible parameter panics on every path.",
            "Orders are concrete per harness (the solver adds little here); orders 'well above 64' are outside the bound.",
            "DESIGN.md §3 C14"),
    "C15": ("next_f64 in [0,1) for every 256-bit generator state; random_tournament / random_recursive_tree / erdos_renyi of order "
            "3 for EVERY u64 seed (real PRNG, symbolic seed) and every p in [0,1]: structural validity, p=0 / p=1, rejection of p "
            "outside [0,1] (7 representatives incl. NaN and infinities); AdjacencyMap variants with 2 workers.",
            "Determinism is NOT decided (proving two copies of SplitMix64's multipliers equal is beyond the SAT back end: "
            "timeout); interleavings of the AdjacencyMap workers are not explored; EdgeList::erdos_renyi runs out of memory.",
            "DESIGN.md §3 C15"),
    "C16": ("All From conversions between the four representations (+ weighted targets) over all digraphs on 3 vertices (those "
            "involving AdjacencyMap: 2 quick, 3 thorough); from(rows) with self-loops / out-of-range heads (valid: exact rows, "
            "invalid: panics on every path); from(arcs) with <= 3 symbolic arcs incl. duplicates and the empty iterator (EdgeList "
            "quick; AdjacencyMatrix: rejection quick, exact result thorough - it takes 15-20 min).",
            "N<=3, K<=3, ids < 4; AdjacencyMatrix::from(arcs) with the fixed-size vector model (the order is symbolic).",
            "DESIGN.md §3 C16"),
    "C17": ("Configuration quantifier: on all digraphs of order 3, AdjacencyList::complement with exactly 1 and 2 CPUs, "
            "degree_sequence and is_semicomplete with 2 and 4 (thorough: 1 and 3), complete(5) with 2 CPUs equal their "
            "single-threaded definitions; AdjacencyMap::random_tournament stays a tournament with 2 (thorough: 4) workers, "
            "AdjacencyMap::erdos_renyi a simple digraph with 2 (thorough).",
            "Interleavings are NOT decided (sequential thread model); union (list and map), complement with > 2 CPUs, "
            "complete(5) with other counts and the symbolic CPU count do not finish here (exp).", "DESIGN.md §3 C17, §4"),
    "C18": ("DistanceMatrix<usize|isize>: new, (u,v) indexing, row-major layout, eccentricities, diameter, center, periphery, "
            "is_connected for every matrix of order 1 and 2 (isize order 3 thorough) with entries <= infinity (ties, all-infinite, "
            "diagonal maxima).", "Order <= 2 (3); Vec model.", "DESIGN.md §3 C18"),
    "C19": ("Every predecessor vector of length 4 (6 thorough; cyclic, self-referential), every start, every predicate (vertex "
            "mask, optionally 'has no predecessor'): Some iff a target is reached before the chain ends or repeats, path = the chain "
            "up to the first target; termination via a bound on predicate evaluations (non-termination becomes a replayable "
            "assertion failure); search = search_by with equality.", "L=4 (6); Vec model.", "DESIGN.md §3 C19"),
    "C20": ("Two arbitrary digraphs on 3 vertices built through different histories (adds vs. complete-then-remove/toggle): == "
            "iff same abstract digraph, cmp/hash consistent; same arcs with orders 2 vs 3 never equal; AdjacencyMap pairs with "
            "vertex sets within {0,2,3} (isolated vertices) equal iff same vertex set and arcs; clone equal and independent under "
            "an arbitrary mutation. AdjacencyMatrix: the real derived impls on the real blocks.",
            "N=3; for the BTree-backed representations Eq/Ord/Hash of the containers are the models' (validated against std by "
            "differential tests).", "DESIGN.md §3 C20"),
}

NOT_APPLICABLE = {
    "C09": "encodable (harness c09_array_n3 with bounded recursion exists) but the query does not finish: Tarjan::components over "
           "all digraphs on 3 vertices was still in CBMC's symbolic execution after 50 min (recursion over model map/set/Vec state); "
           "no smaller meaningful bound exists (the partition logic needs >= 3 vertices). A timeout is never reported as a pass.",
    "C10": "Johnson75 needs the real AdjacencyMap + filter_vertices + Tarjan + two recursive procedures per start vertex; the 3-vertex "
           "query (c10_johnson_n3) did not leave symbolic execution within 25-50 min, and the blocked/unblocked interplay the property "
           "worries about needs >= 4 vertices. Out of reach for this technique in this sandbox.",
}

PENDING = "check not built yet in this session (work in progress); no claim is made"


def main():
    props = [json.loads(l)["id"] for l in open(os.path.join(HERE, "properties.jsonl"))]
    checks = []
    for pid in props:
        if pid in CLAIMED:
            text, note, ref = CLAIMED[pid]
            checks.append({
                "property_id": pid,
                "quick_cmd": f"python3 run.py {pid} quick",
                "thorough_cmd": f"python3 run.py {pid} thorough",
                "evidence_file": f"/verif/evidence/{pid}.json",
                "replay_cmd_template": "python3 run.py --replay {path}",
                "engine": "kani-cbmc",
                "level_claimed": {"category": "model_checking", "text": text, "design_ref": ref},
                "level_note": note,
                "technique": TECH,
            })
    na = []
    for pid in props:
        if pid not in CLAIMED:
            na.append({"property_id": pid, "reason": NOT_APPLICABLE.get(pid, PENDING)})
    man = {
        "version": 1,
        "setup_cmd": "python3 setup.py",
        "hooks": {
            "guard": "none (no source hooks: the encoder transforms a scratch copy of /repo/src; see xform.py)",
            "enable": "python3 xform.py <f0|f1|f2> <scratch-dir> — regenerated from /repo's working tree on every run",
            "baseline_off_cmd": "cd /repo && cargo test --workspace --no-fail-fast --offline",
            "source_commits": [],
            "add_only": True,
        },
        "engines": [
            {"name": "kani-cbmc", "path": "/verif/run.py",
             "serves_properties": sorted(CLAIMED),
             "kind_free_text": "Kani 0.68 proof harnesses (/verif/harness) over the transformed crate; CBMC 6.11 + cadical decides; "
                               "counterexamples are replayed natively (dev, release, Miri) against an untransformed copy"},
        ],
        "checks": checks,
        "not_applicable": na,
        "notes": "All checks are bounded; bounds are stated per harness in evidence/<id>.json. Exit 2 = inconclusive "
                 "(timeout / bound too small / non-reproducing counterexample), never reported as pass.",
    }
    with open(os.path.join(HERE, "MANIFEST.json"), "w") as fh:
        json.dump(man, fh, indent=1)
        fh.write("\n")


if __name__ == "__main__":
    main()
