#!/usr/bin/env python3
"""Writes MANIFEST.json from the table below (kept in one place so that the
claimed level, the notes and the not_applicable list stay in step)."""
import json
import os

HERE = os.path.dirname(os.path.abspath(__file__))

TECH = "bounded model checking (Kani 0.68 / CBMC 6.11 + cadical) of graaf's own function bodies over symbolic inputs"

# property -> (level text, level note, design ref)
CLAIMED = {
    "C19": (
        "Every predecessor vector of length <= 4 (quick) / 6 (thorough), every start vertex and every target predicate "
        "is decided in one SAT query per harness against a harness-side link-following reference; termination is the "
        "unwinding assertion. Bounded, not a proof for longer vectors.",
        "Vec model of /verif/vstd (flavour f2); bounds L<=4/6; harness oracle.",
        "DESIGN.md §3 C19",
    ),
}

NOT_APPLICABLE = {
}

PENDING = "check not built yet in this session (work in progress); no claim is made"


def main():
    props = [json.loads(l)["id"] for l in open(os.path.join(HERE, "properties.jsonl"))]
    checks = []
    for pid in props:
        if pid in CLAIMED:
            text, note, ref = CLAIMED[pid]
            checks.append({
                "property_id": pid,
                "quick_cmd": f"python3 run.py {pid} quick",
                "thorough_cmd": f"python3 run.py {pid} thorough",
                "evidence_file": f"/verif/evidence/{pid}.json",
                "replay_cmd_template": "python3 run.py --replay {path}",
                "engine": "kani-cbmc",
                "level_claimed": {"category": "model_checking", "text": text, "design_ref": ref},
                "level_note": note,
                "technique": TECH,
            })
    na = []
    for pid in props:
        if pid not in CLAIMED:
            na.append({"property_id": pid, "reason": NOT_APPLICABLE.get(pid, PENDING)})
    man = {
        "version": 1,
        "setup_cmd": "python3 setup.py",
        "hooks": {
            "guard": "none (no source hooks: the encoder transforms a scratch copy of /repo/src; see xform.py)",
            "enable": "python3 xform.py <f0|f1|f2> <scratch-dir> — regenerated from /repo's working tree on every run",
            "baseline_off_cmd": "cd /repo && cargo test --workspace --no-fail-fast --offline",
            "source_commits": [],
            "add_only": True,
        },
        "engines": [
            {"name": "kani-cbmc", "path": "/verif/run.py",
             "serves_properties": sorted(CLAIMED),
             "kind_free_text": "Kani 0.68 proof harnesses (/verif/harness) over the transformed crate; CBMC 6.11 + cadical decides; "
                               "counterexamples are replayed natively (dev, release, Miri) against an untransformed copy"},
        ],
        "checks": checks,
        "not_applicable": na,
        "notes": "All checks are bounded; bounds are stated per harness in evidence/<id>.json. Exit 2 = inconclusive "
                 "(timeout / bound too small / non-reproducing counterexample), never reported as pass.",
    }
    with open(os.path.join(HERE, "MANIFEST.json"), "w") as fh:
        json.dump(man, fh, indent=1)
        fh.write("\n")


if __name__ == "__main__":
    main()
